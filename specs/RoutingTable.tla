---------------------------- MODULE RoutingTable ----------------------------
(* C11 -- the Kademlia routing table of lbry/dht/protocol/routing_table.py (TreeRoutingTable + KBucket),
   one action per public call.  Everything is expressed in DISTANCE space: a contact is [d, a] where d is the
   XOR distance of its node id to the own id (XOR is translation invariant, so the own id is 0 here and a
   lookup key is given by ITS distance to the own id) and a is its (address, port) pair.

   add_peer only awaits inside `probe`; the outcome of the probe and the liveness book-keeping the eviction
   rule consults (which contacts of the full bucket are bad/unknown and have not replied within 60 s; whether
   the bucket head replied within 60 s) are nondeterministic parameters of the Add actions. *)
EXTENDS Naturals, Sequences, FiniteSets, TLC, Bitwise

CONSTANTS B,        \* id bits: distances 1 .. 2^B - 1
          K,        \* bucket capacity (constants.K)
          MAXC,     \* at most this many contacts in the table (state-space bound)
          Addr,     \* set of (address, port) pairs (model values; interchangeable, hence a symmetry set)
          NoAddr    \* a value outside Addr
N == 2 ^ B
Dist == 1..(N - 1)
Sym == Permutations(Addr)
Peer == [d : Dist, a : Addr]

VARIABLES buckets,   \* Seq of [min, max, peers : Seq(Peer)]; max is exclusive
          err,       \* the call raised (IndexError: no bucket covers the id)
          okLive,    \* last Add displaced nobody but same-address / same-id contacts and contacts whose probe failed
          okCloser,  \* last Add admitted the newcomer if it was owed admission
          tag        \* what happened in the last call (for reachability witnesses only)
vars == <<buckets, err, okLive, okCloser, tag>>

Range(q) == {q[i] : i \in DOMAIN q}
AllPeers(bs) == UNION {Range(bs[i].peers) : i \in DOMAIN bs}
InRange(b, d) == b.min <= d /\ d < b.max
\* _kbucket_index: first bucket whose range holds the distance, len(buckets) if none (then IndexError)
Index(bs, d) == IF \E i \in DOMAIN bs : InRange(bs[i], d)
                THEN CHOOSE i \in DOMAIN bs : InRange(bs[i], d) /\ \A j \in 1..(i - 1) : ~InRange(bs[j], d)
                ELSE Len(bs) + 1
Filter(q, S) == SelectSeq(q, LAMBDA x : x \in S)        \* keep elements in S, in order
Without(q, S) == SelectSeq(q, LAMBDA x : x \notin S)

\* _split_bucket
Split(bs, i) ==
  LET ob == bs[i]
      sp == ob.max - ((ob.max - ob.min) \div 2)
      lo == [min |-> ob.min, max |-> sp, peers |-> SelectSeq(ob.peers, LAMBDA x : x.d < sp)]
      hi == [min |-> sp, max |-> ob.max, peers |-> SelectSeq(ob.peers, LAMBDA x : x.d >= sp)]
  IN SubSeq(bs, 1, i - 1) \o <<lo, hi>> \o SubSeq(bs, i + 1, Len(bs))

\* _join_buckets: pop the first empty bucket, hand its range to the neighbours, repeat
RECURSIVE Join(_)
Join(bs) ==
  IF Len(bs) = 1 THEN bs
  ELSE IF ~\E i \in DOMAIN bs : bs[i].peers = <<>> THEN bs
  ELSE LET i == CHOOSE i \in DOMAIN bs : bs[i].peers = <<>> /\ \A j \in 1..(i - 1) : bs[j].peers # <<>>
           b == bs[i]
           lower == i > 1
           higher == i < Len(bs)
           mid == ((b.max - b.min) \div 2) + b.min
           nb == IF lower /\ higher THEN [bs EXCEPT ![i - 1].max = mid, ![i + 1].min = mid]
                 ELSE IF lower THEN [bs EXCEPT ![i - 1].max = b.max]
                 ELSE [bs EXCEPT ![i + 1].min = b.min]
       IN Join(SubSeq(nb, 1, i - 1) \o SubSeq(nb, i + 1, Len(nb)))

\* distance of the K-th closest known contact (the farthest one if fewer than K are known)
KthDist(S) == LET ds == {x.d : x \in S} IN
  IF Cardinality(ds) < K THEN CHOOSE m \in ds : \A x \in ds : x <= m
  ELSE CHOOSE m \in ds : Cardinality({x \in ds : x <= m}) = K
\* _should_split (SPLIT_BUCKETS_UNDER_INDEX = 1, indices 0-based in the code)
ShouldSplit(bs, i, d) == i = 1 \/ d < KthDist(AllPeers(bs))

RemoveFrom(bs, S) == [i \in DOMAIN bs |-> [bs[i] EXCEPT !.peers = Without(@, S)]]

\* add_peer(peer, probe).  ng: contacts that are bad/unknown and have not replied within 60 s;
\* hr: the head of the full bucket replied within 60 s;  ok: the probe is answered.
\* Result: [bs, res, err, asked (the eviction branch was reached), bucket (its peers), probed]
RECURSIVE AddCore(_, _, _, _, _)
AddCore(bs0, p, ng, hr, ok) ==
  LET sameaddr == {x \in AllPeers(bs0) : x.a = p.a /\ x.d # p.d}
      bs == IF sameaddr = {} THEN bs0 ELSE Join(RemoveFrom(bs0, sameaddr))
      i == Index(bs, p.d)
      none == [d |-> 0, a |-> NoAddr]
      R(b, r) == [bs |-> b, res |-> r, err |-> FALSE, asked |-> FALSE, bucket |-> {}, probed |-> none]
  IN IF i > Len(bs) THEN [R(bs, FALSE) EXCEPT !.err = TRUE]
     ELSE LET ps == bs[i].peers IN
       IF p \in Range(ps) THEN R([bs EXCEPT ![i].peers = Append(Without(ps, {p}), p)], TRUE)
       ELSE IF \E x \in Range(ps) : x.d = p.d
            THEN R([bs EXCEPT ![i].peers = Append(SelectSeq(ps, LAMBDA x : x.d # p.d), p)], TRUE)
       ELSE IF Len(ps) < K THEN R([bs EXCEPT ![i].peers = Append(ps, p)], TRUE)
       ELSE IF ShouldSplit(bs, i, p.d)
            THEN LET r == AddCore(Split(bs, i), p, ng, hr, ok) IN [r EXCEPT !.bs = Join(r.bs)]
       ELSE LET cand == Filter(ps, ng) IN
            IF cand = <<>> /\ hr THEN [R(bs, FALSE) EXCEPT !.asked = TRUE, !.bucket = Range(ps)]
            ELSE LET victim == IF cand # <<>> THEN cand[1] ELSE ps[1] IN
                 IF ok THEN [R(bs, FALSE) EXCEPT !.asked = TRUE, !.bucket = Range(ps), !.probed = victim]
                 ELSE LET r == AddCore([bs EXCEPT ![i].peers = Without(ps, {victim})], p, ng, hr, ok)
                      IN [r EXCEPT !.asked = TRUE, !.bucket = Range(ps), !.probed = victim]

Init == /\ buckets = << [min |-> 0, max |-> N, peers |-> <<>>] >>
        /\ err = FALSE /\ okLive = TRUE /\ okCloser = TRUE /\ tag = {}

Known == AllPeers(buckets)
Bound(p) == Cardinality(Known) < MAXC \/ p \in Known
\* the two action-level clauses of the property, evaluated on (pre-state, post-state, call)
LiveOK(pre, post, p, failed) ==      \* failed: contacts whose liveness probe went unanswered during this call
  \A q \in pre \ post : q.a = p.a \/ q.d = p.d \/ q \in failed
CloserOK(pre, post, p, res) ==
  (Cardinality({x.d : x \in pre}) < K \/ p.d < KthDist(pre)) => (res /\ p \in post)
Tags(pre, r, p, ok) ==
     (IF Len(r.bs) > Len(buckets) THEN {"grew"} ELSE {}) \cup (IF Len(r.bs) < Len(buckets) THEN {"shrank"} ELSE {})
  \cup (IF r.asked /\ r.probed.d # 0 /\ ok THEN {"probe_ok"} ELSE {}) \cup (IF r.asked /\ r.probed.d # 0 /\ ~ok THEN {"probe_fail"} ELSE {})
  \cup (IF r.asked /\ r.probed.d = 0 THEN {"head_recent"} ELSE {})
  \cup (IF \E x \in pre : x.a = p.a /\ x.d # p.d THEN {"same_addr"} ELSE {})
  \cup (IF \E x \in pre : x.d = p.d /\ x.a # p.a THEN {"same_id"} ELSE {})
  \cup (IF pre # {} /\ Cardinality({x.d : x \in pre}) >= K /\ p.d < KthDist(pre) THEN {"closer_owed"} ELSE {})
  \cup (IF ~r.res THEN {"refused"} ELSE {})
Apply(r, p, ok) ==
  /\ buckets' = r.bs /\ err' = r.err
  /\ okLive' = LiveOK(Known, AllPeers(r.bs), p, IF ~ok /\ r.probed.d # 0 THEN {r.probed} ELSE {})
  /\ okCloser' = CloserOK(Known, AllPeers(r.bs), p, r.res)
  /\ tag' = Tags(Known, r, p, ok)

Dry(p) == AddCore(buckets, p, {}, TRUE, TRUE)     \* tells whether the eviction branch is reached, and for which bucket
\* add_peer that never reaches the eviction branch
AddPlain(p, r0) == /\ ~r0.asked /\ Apply(r0, p, TRUE)
\* full unsplittable bucket, all contacts fresh and the head replied within 60 s: refused without probing
AddHeadRecent(p, r0) == /\ r0.asked /\ Apply(r0, p, TRUE)
\* the chosen contact answers the probe: newcomer refused
AddProbeAnswered(p, ng) == Apply(AddCore(buckets, p, ng, FALSE, TRUE), p, TRUE)
\* the chosen contact does not answer: it is replaced
AddProbeFailed(p, ng) == Apply(AddCore(buckets, p, ng, FALSE, FALSE), p, FALSE)
\* remove_peer(peer): only an equal contact (same id and address) is removed; then buckets are joined
Remove(p) == /\ p \in Known
             /\ LET i == Index(buckets, p.d) IN
                  IF i > Len(buckets) THEN /\ err' = TRUE /\ UNCHANGED buckets
                  ELSE /\ buckets' = Join([buckets EXCEPT ![i].peers = Without(@, {p})]) /\ err' = FALSE
             /\ okLive' = TRUE /\ okCloser' = TRUE /\ tag' = {"removed"}

Add(p) == /\ Bound(p)
          /\ LET r0 == Dry(p) IN
               \/ AddPlain(p, r0) \/ AddHeadRecent(p, r0)
               \/ /\ r0.asked
                  /\ \E ng \in SUBSET r0.bucket : AddProbeAnswered(p, ng) \/ AddProbeFailed(p, ng)
Next == \E p \in Peer : Add(p) \/ Remove(p)
Spec == Init /\ [][Next]_vars

\* ------------------------------------------------------------------ the property
PartitionOf(bs, top) == /\ Len(bs) >= 1 /\ bs[1].min = 0 /\ bs[Len(bs)].max = top
                        /\ \A i \in 1..(Len(bs) - 1) : bs[i].max = bs[i + 1].min
                        /\ \A i \in DOMAIN bs : bs[i].min < bs[i].max
Partition == PartitionOf(buckets, N)
Membership == \A i \in DOMAIN buckets : \A x \in Range(buckets[i].peers) : InRange(buckets[i], x.d)
Capacity == \A i \in DOMAIN buckets : Len(buckets[i].peers) <= K
NoDupInBucket == \A i \in DOMAIN buckets : Cardinality(Range(buckets[i].peers)) = Len(buckets[i].peers)
NoDupId == \A x, y \in Known : x.d = y.d => x = y
NoDupAddr == \A x, y \in Known : x.a = y.a => x = y
NoIndexError == ~err /\ \A d \in Dist : Index(buckets, d) <= Len(buckets)
LiveNotDisplaced == okLive
CloserAdmitted == okCloser

\* find_close_peers(key, count, sender): the `count` known contacts nearest to the key by XOR, ascending,
\* without the sender (the own id, distance 0, is never a contact). kd = distance of the key to the own id.
RECURSIVE SortBy(_, _)
SortBy(S, kd) == IF S = {} THEN <<>>
                 ELSE LET m == CHOOSE x \in S : \A y \in S : (x.d ^^ kd) <= (y.d ^^ kd) IN <<m>> \o SortBy(S \ {m}, kd)
Closest(bs, kd, count, senderd) ==
  LET S == {x \in AllPeers(bs) : x.d # senderd}
      q == SortBy(S, kd)
  IN SubSeq(q, 1, IF count < Len(q) THEN count ELSE Len(q))
\* model-level sanity of the definition: ascending, complete
ClosestSane == \A kd \in {0, 1, N \div 2, N - 1} :
                 LET q == Closest(buckets, kd, K, 0) IN
                   /\ \A i \in 1..(Len(q) - 1) : (q[i].d ^^ kd) < (q[i + 1].d ^^ kd)
                   /\ \A x \in Known \ Range(q) : Len(q) = K /\ (x.d ^^ kd) > (q[Len(q)].d ^^ kd)

\* reachability witnesses (must be violated)
W(t) == t \notin tag
W_probe_ok == W("probe_ok")
W_probe_fail == W("probe_fail")
W_head_recent == W("head_recent")
W_same_addr == W("same_addr")
W_same_id == W("same_id")
W_closer_owed == W("closer_owed")
W_refused == W("refused")
W_shrank == W("shrank")
W_grew == W("grew")
View == <<buckets, err, okLive, okCloser>>
=============================================================================
