------------------------------- MODULE Purchase -------------------------------
(* G12 part 3 -- the purchase section of lbry/file/file_manager.py FileManager.download_from_uri (with
   WalletManager.create_purchase_transaction / broadcast_or_release and the `finally: release_tx(payment)`).

   One claim, several callers of download_from_uri for it.  One action per await point of a call:

     Call        the call arrives; lbry.utils.cache_concurrent MERGES it into a running call with EQUAL arguments (SAMEKEY)
     Resolve     ledger.resolve(..., include_purchase_receipt=True) under resolve_timeout: ok / timeout / error.
                 The purchase receipt is what the wallet knows AT RESOLVE TIME.
     Lookup      source_manager.get_filtered(sd_hash=...): a stream that is already there is restarted and returned
                 (no purchase); otherwise  needs_purchasing = not is_my_output and has_price and not purchase_receipt
     Buy         create_purchase_transaction: the decision of FeeConvert.tla (buy / above / conversion / format /
                 insufficient); a bought transaction RESERVES outputs and is NOT yet broadcast
     Start       stream.start(timeout): ok / sd timeout / data timeout / other error
     Bcast       broadcast_or_release(payment): accepted / refused
     SaveFee     storage.save_content_fee (payers only); right after it source_manager.add(stream): the stream is "there"
                 (a call that pays nothing adds the stream at the end of Start, without an await in between)
     Register    save_content_claim, save_file (may time out AFTER the payment)
     Cancel      the caller is cancelled at any await
     Sync        the wallet learns of a broadcast purchase (from then on resolve carries the receipt)
     Delete      the user deletes the downloaded stream

   As found (GUARD = FALSE): nothing but cache_concurrent keeps two calls for the same claim apart, and its key is the whole
   argument list: two concurrent calls that differ in file_name / save_file / timeout / spelling of the URL both find no
   stream and no receipt, both buy, both broadcast: the claim is paid twice (NoDoublePay violated).  GUARD = TRUE is the
   reference: the purchase section is entered by one call per claim at a time.
   Negative controls: EAGERPAY (broadcast before the stream has started), NORELEASE (the finally clause does not release). *)
EXTENDS Naturals, Sequences, FiniteSets, TLC, Json

CONSTANTS CALLERS, SAMEKEY, GUARD, EAGERPAY, NORELEASE, EMIT,
          KEEPLOG      \* TRUE: record the schedule (Leg B); FALSE: exhaustive runs, the schedule does not multiply the states

VARIABLES pc,        \* caller -> "idle" "joined" "resolve" "lookup" "buy" "start" "bcast" "savefee" "register" "restart" | "done" "failed"
          owner,     \* joined caller -> the caller whose call it shares
          claim,     \* [price, mine, dec]  the resolved claim (fixed per behaviour)
          have,      \* the source manager has a stream for the claim
          receipt,   \* the wallet has a purchase receipt for the claim
          unsynced,  \* a purchase was broadcast that the wallet has not synced yet
          sawrcpt,   \* caller -> receipt as seen at resolve time
          held,      \* callers whose purchase transaction holds reserved outputs (built, not broadcast)
          started,   \* callers whose stream has started
          racing,    \* callers that decided to buy while another purchase of the claim was in flight
          paid,      \* sequence of callers whose purchase was broadcast
          result,    \* caller -> "-" | "stream" | error kind
          log        \* the schedule, for Leg B: <<[a, c, how]>>
vars == <<pc, owner, claim, have, receipt, unsynced, sawrcpt, held, started, racing, paid, result, log>>

DECISIONS == {"buy", "above", "conversion", "format", "insufficient"}
Purchasing(c) == pc[c] \in {"buy", "start", "bcast", "savefee", "register"} /\ (c \in held \/ pc[c] = "buy" \/ \E i \in DOMAIN paid : paid[i] = c)
L(a, c, how) == log' = IF KEEPLOG THEN Append(log, [a |-> a, c |-> c, how |-> how]) ELSE log
AnyC == CHOOSE c \in CALLERS : TRUE

Init ==
  /\ pc = [c \in CALLERS |-> "idle"] /\ owner = [c \in CALLERS |-> c]
  /\ claim \in [price : BOOLEAN, mine : BOOLEAN, dec : DECISIONS]
  /\ (claim.price = FALSE => claim.dec = "buy") /\ (claim.mine => claim.dec = "buy")      \* irrelevant combinations once
  /\ have \in BOOLEAN /\ receipt \in BOOLEAN /\ unsynced = FALSE
  /\ sawrcpt = [c \in CALLERS |-> FALSE]
  /\ held = {} /\ started = {} /\ racing = {} /\ paid = <<>>
  /\ result = [c \in CALLERS |-> "-"]
  /\ log = <<[a |-> "init", c |-> AnyC, how |-> IF have THEN (IF receipt THEN "have+receipt" ELSE "have")
                                                 ELSE (IF receipt THEN "receipt" ELSE "none")]>>

Finish(c, r) ==       \* the call returns / raises; the callers that share it get the same
  /\ pc' = [d \in CALLERS |-> IF d = c \/ (pc[d] = "joined" /\ owner[d] = c) THEN (IF r = "stream" THEN "done" ELSE "failed") ELSE pc[d]]
  /\ result' = [d \in CALLERS |-> IF d = c \/ (pc[d] = "joined" /\ owner[d] = c) THEN r ELSE result[d]]
\* an exception on the way: `finally: if payment is not None: release_tx(payment)`
Fail(c, r) == Finish(c, r) /\ held' = (IF NORELEASE THEN held ELSE held \ {c})

Call(c) ==
  /\ pc[c] = "idle"
  /\ IF SAMEKEY /\ \E d \in CALLERS : pc[d] \notin {"idle", "joined", "done", "failed"}
       THEN /\ pc' = [pc EXCEPT ![c] = "joined"]
            /\ owner' = [owner EXCEPT ![c] = CHOOSE d \in CALLERS : pc[d] \notin {"idle", "joined", "done", "failed"}]
       ELSE pc' = [pc EXCEPT ![c] = "resolve"] /\ owner' = owner
  /\ L("call", c, "-")
  /\ UNCHANGED <<claim, have, receipt, unsynced, sawrcpt, held, started, racing, paid, result>>

Resolve(c, how) ==
  /\ pc[c] = "resolve"
  /\ IF how = "ok" THEN /\ pc' = [pc EXCEPT ![c] = "lookup"] /\ result' = result /\ held' = held
                        /\ sawrcpt' = [sawrcpt EXCEPT ![c] = receipt]
     ELSE Fail(c, "resolve_" \o how) /\ sawrcpt' = sawrcpt
  /\ L("resolve", c, how)
  /\ UNCHANGED <<owner, claim, have, receipt, unsynced, started, racing, paid>>

Needs(c) == claim.price /\ ~claim.mine /\ ~sawrcpt[c]
Lookup(c) ==
  /\ pc[c] = "lookup"
  /\ GUARD => ~\E d \in CALLERS \ {c} : Purchasing(d)
  /\ pc' = [pc EXCEPT ![c] = IF have THEN "restart" ELSE IF Needs(c) THEN "buy" ELSE "start"]
  /\ racing' = IF ~have /\ Needs(c) /\ \E d \in CALLERS \ {c} : Purchasing(d) THEN racing \cup {c} ELSE racing
  /\ L("lookup", c, IF have THEN "have" ELSE IF Needs(c) THEN "buy" ELSE "free")
  /\ UNCHANGED <<owner, claim, have, receipt, unsynced, sawrcpt, held, started, paid, result>>

Buy(c) ==
  /\ pc[c] = "buy"
  /\ IF claim.dec = "buy"
       THEN /\ held' = held \cup {c} /\ result' = result
            /\ pc' = [pc EXCEPT ![c] = IF EAGERPAY THEN "bcast" ELSE "start"]
       ELSE Fail(c, claim.dec)
  /\ L("buy", c, claim.dec)
  /\ UNCHANGED <<owner, claim, have, receipt, unsynced, sawrcpt, started, racing, paid>>

Start(c, how) ==
  /\ pc[c] = "start"
  /\ IF how = "ok" THEN /\ started' = started \cup {c} /\ result' = result /\ held' = held
                        /\ pc' = [pc EXCEPT ![c] = IF c \in held THEN "bcast" ELSE "register"]
                        /\ have' = (have \/ c \notin held)
     ELSE Fail(c, "start_" \o how) /\ started' = started /\ have' = have
  /\ L("start", c, how)
  /\ UNCHANGED <<owner, claim, receipt, unsynced, sawrcpt, racing, paid>>

Bcast(c, how) ==
  /\ pc[c] = "bcast"
  /\ IF how = "ok" THEN /\ paid' = Append(paid, c) /\ held' = held \ {c} /\ unsynced' = TRUE /\ result' = result
                        /\ pc' = [pc EXCEPT ![c] = IF EAGERPAY /\ c \notin started THEN "start" ELSE "savefee"]
     ELSE Fail(c, "broadcast_refused") /\ paid' = paid /\ unsynced' = unsynced
  /\ L("bcast", c, how)
  /\ UNCHANGED <<owner, claim, have, receipt, sawrcpt, started, racing>>

SaveFee(c) ==
  /\ pc[c] = "savefee"
  /\ have' = TRUE /\ pc' = [pc EXCEPT ![c] = "register"]
  /\ L("savefee", c, "-")
  /\ UNCHANGED <<owner, claim, receipt, unsynced, sawrcpt, held, started, racing, paid, result>>

Register(c, how) ==      \* source_manager.add comes before save_file: a save timeout fails the call after the payment
  /\ pc[c] = "register"
  /\ IF how = "ok" THEN Finish(c, "stream") ELSE Finish(c, "save_timeout")
  /\ L("register", c, how)
  /\ UNCHANGED <<owner, claim, have, receipt, unsynced, sawrcpt, held, started, racing, paid>>

Restart(c, how) ==
  /\ pc[c] = "restart"
  /\ IF how = "ok" THEN Finish(c, "stream") ELSE Finish(c, "start_" \o how)
  /\ L("restart", c, how)
  /\ UNCHANGED <<owner, claim, have, receipt, unsynced, sawrcpt, held, started, racing, paid>>

Cancel(c) ==
  /\ pc[c] \in {"resolve", "buy", "start", "bcast", "restart"}
  /\ Fail(c, "cancelled")
  /\ L("cancel", c, pc[c])
  /\ UNCHANGED <<owner, claim, have, receipt, unsynced, sawrcpt, started, racing, paid>>

Sync == /\ unsynced /\ unsynced' = FALSE /\ receipt' = TRUE /\ L("sync", AnyC, "-")
        /\ UNCHANGED <<pc, owner, claim, have, sawrcpt, held, started, racing, paid, result>>
Delete == /\ have /\ \A c \in CALLERS : pc[c] \in {"idle", "done", "failed"}
          /\ have' = FALSE /\ L("delete", AnyC, "-")
          /\ UNCHANGED <<pc, owner, claim, receipt, unsynced, sawrcpt, held, started, racing, paid, result>>

Next == \/ \E c \in CALLERS : \/ Call(c) \/ Lookup(c) \/ Buy(c) \/ Cancel(c) \/ SaveFee(c)
                              \/ \E h \in {"ok", "timeout", "error"} : Resolve(c, h)
                              \/ \E h \in {"ok", "sdtimeout", "datatimeout", "error"} : Start(c, h)
                              \/ \E h \in {"ok", "refused"} : Bcast(c, h)
                              \/ \E h \in {"ok", "savetimeout"} : Register(c, h)
                              \/ \E h \in {"ok", "error"} : Restart(c, h)
        \/ Sync \/ Delete
Spec == Init /\ [][Next]_vars

\* ------------------------------------------------------------------ the clauses
Paid(c) == \E i \in DOMAIN paid : paid[i] = c
TypeOK == /\ pc \in [CALLERS -> {"idle", "joined", "resolve", "lookup", "buy", "start", "bcast", "savefee", "register", "restart", "done", "failed"}]
          /\ held \subseteq CALLERS /\ started \subseteq CALLERS /\ Len(paid) <= Cardinality(CALLERS)
\* money leaves only for a priced claim of somebody else, without a receipt, that the decision allows
PaysOnlyWhenDue == \A c \in CALLERS : Paid(c) => (claim.price /\ ~claim.mine /\ ~sawrcpt[c] /\ claim.dec = "buy")
\* ... and only once the stream has started
PaysAfterStart == \A c \in CALLERS : Paid(c) => c \in started
\* a call that failed before its purchase was broadcast has paid nothing and holds nothing
FailedPaysNothing == \A c \in CALLERS : (pc[c] = "failed" /\ result[c] \notin {"save_timeout"}) => ~Paid(c)
ReleasedAtEnd == \A c \in CALLERS : pc[c] \in {"done", "failed"} => c \notin held
\* the claim is not paid a second time by a call that ran while the first purchase was under way
NoDoublePay == ~\E i, j \in DOMAIN paid : i < j /\ (paid[j] \in racing \/ paid[i] \in racing)
\* an existing stream or receipt is reused: a call that saw one never pays
ReusesWhatIsThere == \A c \in CALLERS : (sawrcpt[c] \/ pc[c] = "restart") => ~Paid(c)

W_Paid == ~(Len(paid) = 1 /\ \A c \in CALLERS : pc[c] \in {"done", "failed", "idle"})
W_PaidTwiceSequential == ~(Len(paid) = 2 /\ racing = {})         \* only after Delete and before Sync
W_FailedAfterBuy == ~(\E c \in CALLERS : result[c] = "start_datatimeout" /\ claim.price /\ ~claim.mine /\ ~sawrcpt[c] /\ claim.dec = "buy")
W_Joined == ~(\E c \in CALLERS : pc[c] = "done" /\ owner[c] # c)
W_ReceiptReused == ~(\E c \in CALLERS : pc[c] = "done" /\ sawrcpt[c] /\ Len(paid) = 1)
W_SaveTimeoutAfterPay == ~(\E c \in CALLERS : result[c] = "save_timeout" /\ Paid(c))

\* ------------------------------------------------------------------ simulation profiles for Leg B (-simulate picks uniformly:
\* without them nearly every behaviour ends in an early failure)
Benign == LET e == log'[Len(log')] IN
            /\ e.a # "cancel"
            /\ (e.a = "resolve" => e.how = "ok")
            /\ (e.a \in {"start", "restart"} => e.how = "ok")
PayingClaim == claim.price /\ ~claim.mine /\ claim.dec = "buy"

\* ------------------------------------------------------------------ emission for Leg B
Terminal == \A c \in CALLERS : pc[c] \in {"done", "failed"}
Beh == [claim |-> claim, log |-> log, result |-> result, paid |-> paid, racing |-> racing]
Emit == (EMIT /\ Terminal) => PrintT(<<"BEH", ToJson(Beh)>>)
=============================================================================
