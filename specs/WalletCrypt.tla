----------------------------- MODULE WalletCrypt -----------------------------
(* C13 -- wallet secrets (lbry/wallet/wallet.py Wallet.encrypt/decrypt/lock/unlock/save/from_storage/pack/unpack,
   lbry/wallet/account.py Account.encrypt/decrypt/to_dict/from_dict, lbry/crypto/crypt.py).

   Encryption is symbolic: a field is "none" (empty string), "plain" (the account's own secret in clear) or a
   password p \in PW, which stands for Enc(p, the account's own secret).  Dec(p', Enc(p, t)) = t iff p' = p, otherwise
   it FAILS (the padding / UTF-8 / mnemonic / Base58Check tests of the code are abstracted as "detects").

   account  [kind  "seeded" | "keyonly" | "watch"       what the account was created from (never changes)
             enc   Account.encrypted
             seed  Account.seed                field
             pks   Account.private_key_string  field
             pko   Account.private_key is not None]
   password Wallet.encryption_password (NoPw = None)     pref  preferences['encrypt-on-disk']
   disk     the last image written by WalletStorage.write: Absent or [pref, accs |-> <<[kind, enc, seed, pks]>>]
   blob     the last packed sync payload: NoBlob or [pw, accs]  (scrypt-AES over the plain to_json())
   wrote    the last action wrote the wallet file
   act      history: last action, its arguments and its result (hidden from exhaustive runs by VIEW)

   Operators that take a "wallet view" S only use S.accs / S.password / S.pref / S.disk, so the same clauses are
   evaluated on the model state (here) and on observations of the real objects (WalletCryptTrace).

   Readings (DESIGN 8).  An account without any secret (watch-only) "decrypts" under every password, and unlock() on a
   wallet that is not locked has nothing to decrypt and simply records the password given: there is no ciphertext to
   test a password against, the refusal clause is vacuous there (the model follows the code: W_WatchFlip).  A refused
   unlock stops at the first account that does not decrypt; accounts before it that do fit the password stay decrypted
   (only reachable with imported account dicts, FOREIGN).  "No plaintext on disk" is about the file WRITTEN while the
   preference is on and a password is set; a file written earlier, while the wallet was locked without a password
   known, may hold a plain account that was added meanwhile (W_StalePlain). *)
EXTENDS Naturals, Sequences, FiniteSets, TLC, TLCExt

CONSTANTS PW,        \* passwords
          MAXACC,    \* at most this many accounts
          MAXOPS,    \* API calls per behaviour
          INITACC,   \* initial wallets: every sequence of kinds of length 0..INITACC
          FOREIGN    \* TRUE: account dicts whose two ciphertexts are under (possibly different) passwords may be imported
NoPw == "none"
Absent == [pref |-> FALSE, accs |-> <<>>, exists |-> FALSE]
NoBlob == [pw |-> NoPw, accs |-> <<>>]
KINDS == {"seeded", "keyonly", "watch"}

VARIABLES accs, password, pref, disk, blob, wrote, ops, act
vars == <<accs, password, pref, disk, blob, wrote, ops, act>>
View == <<accs, password, pref, disk, blob, wrote, ops>>

\* ---------------------------------------------------------------------------------------------- accounts
Fresh(k) == [kind |-> k, enc |-> FALSE, seed |-> IF k = "seeded" THEN "plain" ELSE "none",
             pks |-> IF k = "keyonly" THEN "plain" ELSE "none", pko |-> k # "watch"]
\* Account.encrypt(p): the seed if there is one, the private key if the object is there
AccEncrypt(a, p) == [a EXCEPT !.seed = IF a.seed = "none" THEN "none" ELSE p,
                              !.pks = IF a.pko THEN p ELSE a.pks, !.pko = FALSE, !.enc = TRUE]
\* Account.decrypt(p) succeeds iff every ciphertext of the account is under p (an empty field decrypts to nothing)
Fits(a, p) == a.seed \in {"none", p} /\ a.pks \in {"none", p}
AccDecrypt(a) == [a EXCEPT !.seed = IF a.seed = "none" THEN "none" ELSE "plain",
                           !.pko = (a.pks # "none"), !.pks = "none", !.enc = FALSE]
\* Account.to_dict(encrypt_password)
ToDict(a, ep) ==
  LET k0 == IF ~a.enc /\ a.pko THEN "plain" ELSE a.pks
      doenc == ~a.enc /\ ep # NoPw
  IN [kind |-> a.kind, enc |-> (a.enc \/ ep # NoPw),
      seed |-> IF doenc /\ a.seed # "none" THEN ep ELSE a.seed,
      pks |-> IF doenc /\ k0 # "none" THEN ep ELSE k0]
\* Account.from_dict
FromDict(d) == [kind |-> d.kind, enc |-> d.enc, seed |-> d.seed, pks |-> d.pks,
                pko |-> (~d.enc /\ (d.seed # "none" \/ d.pks # "none"))]
\* an account dict written by other software / another wallet: ciphertexts under sp and kp
Foreign(k, sp, kp) == [kind |-> k, enc |-> TRUE, seed |-> IF k = "seeded" THEN sp ELSE "none",
                       pks |-> IF k = "watch" THEN "none" ELSE kp, pko |-> FALSE]

Locked(A) == \E i \in DOMAIN A : A[i].enc
Image(A, ep, pf) == [pref |-> pf, accs |-> [i \in DOMAIN A |-> ToDict(A[i], ep)], exists |-> TRUE]

\* Wallet.unlock: account by account, stops at the first one that does not decrypt (earlier ones stay decrypted)
RECURSIVE UnlockSeq(_, _, _)
UnlockSeq(A, i, p) == IF i > Len(A) THEN [accs |-> A, ok |-> TRUE]
                      ELSE IF ~A[i].enc THEN UnlockSeq(A, i + 1, p)
                      ELSE IF Fits(A[i], p) THEN UnlockSeq([A EXCEPT ![i] = AccDecrypt(A[i])], i + 1, p)
                      ELSE [accs |-> A, ok |-> FALSE]

\* ---------------------------------------------------------------------------------------------- actions
RECURSIVE SeqsUpTo(_)
SeqsUpTo(n) == IF n = 0 THEN {<<>>} ELSE LET S == SeqsUpTo(n - 1) IN S \cup {Append(s, k) : s \in {t \in S : Len(t) = n - 1}, k \in KINDS}

Init == /\ accs \in {[i \in DOMAIN ks |-> Fresh(ks[i])] : ks \in SeqsUpTo(INITACC)}
        /\ password = NoPw /\ pref = FALSE /\ disk = Absent /\ blob = NoBlob /\ wrote = FALSE /\ ops = 0 /\ act = <<"Init">>

Op == ops < MAXOPS /\ ops' = ops + 1

G_Encrypt == ~Locked(accs)
E_Encrypt(p) == /\ password' = p /\ pref' = TRUE /\ disk' = Image(accs, p, TRUE) /\ wrote' = TRUE
                /\ UNCHANGED <<accs, blob>> /\ act' = <<"Encrypt", p>>
Encrypt(p) == Op /\ G_Encrypt /\ E_Encrypt(p)

G_Decrypt == ~Locked(accs)
E_Decrypt == /\ pref' = FALSE /\ disk' = Image(accs, NoPw, FALSE) /\ wrote' = TRUE
             /\ UNCHANGED <<accs, password, blob>> /\ act' = <<"Decrypt">>
Decrypt == Op /\ G_Decrypt /\ E_Decrypt

G_Lock == password # NoPw
E_Lock == /\ accs' = [i \in DOMAIN accs |-> IF accs[i].enc THEN accs[i] ELSE AccEncrypt(accs[i], password)]
          /\ wrote' = FALSE /\ UNCHANGED <<password, pref, disk, blob>> /\ act' = <<"Lock">>
Lock == Op /\ G_Lock /\ E_Lock

E_Unlock(p) == LET r == UnlockSeq(accs, 1, p) IN
                 /\ accs' = r.accs /\ password' = IF r.ok THEN p ELSE password
                 /\ wrote' = FALSE /\ UNCHANGED <<pref, disk, blob>> /\ act' = <<"Unlock", p, r.ok>>
Unlock(p) == Op /\ E_Unlock(p)

\* Wallet.save: three branches
E_Save == /\ IF pref /\ password # NoPw THEN disk' = Image(accs, password, TRUE) /\ pref' = pref
             ELSE IF pref /\ ~Locked(accs) THEN pref' = FALSE /\ disk' = Image(accs, NoPw, FALSE)   \* "resetting encryption preferences"
             ELSE pref' = pref /\ disk' = Image(accs, NoPw, pref)
          /\ wrote' = TRUE /\ UNCHANGED <<accs, password, blob>> /\ act' = <<"Save">>
Save == Op /\ E_Save

G_Reload == disk.exists
E_Reload == /\ accs' = [i \in DOMAIN disk.accs |-> FromDict(disk.accs[i])] /\ password' = NoPw /\ pref' = disk.pref
            /\ wrote' = FALSE /\ UNCHANGED <<disk, blob>> /\ act' = <<"Reload">>
Reload == Op /\ G_Reload /\ E_Reload

G_Add == Len(accs) < MAXACC
E_Add(k) == /\ accs' = Append(accs, Fresh(k)) /\ wrote' = FALSE /\ UNCHANGED <<password, pref, disk, blob>> /\ act' = <<"Add", k>>
AddAccount(k) == Op /\ G_Add /\ E_Add(k)

E_AddForeign(k, sp, kp) == /\ accs' = Append(accs, Foreign(k, sp, kp)) /\ wrote' = FALSE
                           /\ UNCHANGED <<password, pref, disk, blob>> /\ act' = <<"AddForeign", k, sp, kp>>
AddForeign(k, sp, kp) == Op /\ FOREIGN /\ G_Add /\ E_AddForeign(k, sp, kp)

G_Pack == ~Locked(accs)
E_Pack(p) == /\ blob' = [pw |-> p, accs |-> Image(accs, NoPw, pref).accs] /\ wrote' = FALSE
             /\ UNCHANGED <<accs, password, pref, disk>> /\ act' = <<"Pack", p>>
Pack(p) == Op /\ G_Pack /\ E_Pack(p)

G_Unpack == blob # NoBlob
E_Unpack(p) == /\ wrote' = FALSE /\ UNCHANGED <<accs, password, pref, disk, blob>> /\ act' = <<"Unpack", p, p = blob.pw>>
Unpack(p) == Op /\ G_Unpack /\ E_Unpack(p)

Next == \/ \E p \in PW : Encrypt(p) \/ Unlock(p) \/ Pack(p) \/ Unpack(p)
        \/ \E k \in KINDS : AddAccount(k) \/ \E sp \in PW, kp \in PW : AddForeign(k, sp, kp)
        \/ Decrypt \/ Lock \/ Save \/ Reload
Spec == Init /\ [][Next]_vars
Sym == Permutations(PW)

\* ---------------------------------------------------------------------------------------------- clauses (on a wallet view)
St == [accs |-> accs, password |-> password, pref |-> pref, disk |-> disk]
Core(a) == [kind |-> a.kind, enc |-> a.enc, seed |-> a.seed, pks |-> a.pks, pko |-> a.pko]
SB(a) == a.seed # "none" \/ a.pks # "none" \/ a.pko                 \* the account carries a secret
EncSB(S) == {i \in DOMAIN S.accs : S.accs[i].enc /\ SB(S.accs[i])}
WrongFor(S, p) == \E i \in EncSB(S) : ~Fits(S.accs[i], p)            \* some ciphertext of the wallet is not under p
RightFor(S, p) == \A i \in DOMAIN S.accs : S.accs[i].enc => Fits(S.accs[i], p)
Restored(a) == /\ ~a.enc /\ a.seed = (IF a.kind = "seeded" THEN "plain" ELSE "none")
               /\ a.pko = (a.kind # "watch") /\ a.pks \in {"none", "plain"}

\* a password that does not fit is refused: result False, still locked, and every account that carries a secret and was
\* not decryptable with p -- in a wallet encrypted with ONE other password that is every such account -- is unchanged,
\* as are the password, the preference and the file
RefusalOK(S, S2, p, res) ==
  WrongFor(S, p) =>
    /\ res = FALSE /\ Locked(S2.accs)
    /\ S2.password = S.password /\ S2.pref = S.pref /\ S2.disk = S.disk
    /\ Len(S2.accs) = Len(S.accs)
    /\ \A i \in DOMAIN S.accs : (SB(S.accs[i]) /\ (~S.accs[i].enc \/ ~Fits(S.accs[i], p))) => S2.accs[i] = S.accs[i]
\* the password everything is under unlocks: result True, nothing locked, every account back to its original form
RestoreOK(S, S2, p, res) ==
  (Locked(S.accs) /\ RightFor(S, p)) =>
    /\ res = TRUE /\ ~Locked(S2.accs) /\ S2.password = p /\ Len(S2.accs) = Len(S.accs)
    /\ \A i \in DOMAIN S2.accs : Restored(S2.accs[i]) /\ S2.accs[i].kind = S.accs[i].kind
\* no secret is ever lost or half-decrypted: the flag agrees with the fields, the fields with the kind
KindOK(a) == /\ (a.kind = "seeded") = (a.seed # "none")
             /\ a.enc => (~a.pko /\ a.seed # "plain" /\ a.pks # "plain" /\ (a.kind # "watch" => a.pks # "none"))
             /\ ~a.enc => (a.seed \in {"none", "plain"} /\ a.pks \in {"none", "plain"} /\ a.pko = (a.kind # "watch"))
DiskPlain(D) == \E i \in DOMAIN D.accs : D.accs[i].seed = "plain" \/ D.accs[i].pks = "plain"

\* ---------------------------------------------------------------------------------------------- checked on the model
WellFormed == \A i \in DOMAIN accs : KindOK(accs[i])
\* the file WRITTEN while the preference is on and a password is set holds no plain secret
NoPlaintextOnDisk == (wrote /\ pref /\ password # NoPw) => ~DiskPlain(disk)
\* the stronger state form (also for a file written earlier); NOT an invariant of the code, see W_StalePlain
NoPlaintextOnDiskState == (pref /\ password # NoPw) => ~DiskPlain(disk)
\* without imported foreign accounts every ciphertext in memory is under the wallet's current password, and some single
\* password always unlocks everything
CipherUnderCurrent == (~FOREIGN /\ password # NoPw) => RightFor(St, password)
OnePasswordUnlocks == ~FOREIGN => \E p \in PW : RightFor(St, p)
DiskOnePassword == ~FOREIGN => \E p \in PW : \A i \in DOMAIN disk.accs :
                                   disk.accs[i].seed \in {"none", "plain", p} /\ disk.accs[i].pks \in {"none", "plain", p}
\* action properties: every Unlock step obeys the two clauses; a refused Unpack returns nothing
IsUnlock == act'[1] = "Unlock"
WrongRefused == [][IsUnlock => RefusalOK(St, St', act'[2], act'[3])]_vars
RightRestores == [][IsUnlock => RestoreOK(St, St', act'[2], act'[3])]_vars
LockHides == [][act'[1] = "Lock" => (\A i \in DOMAIN accs' : accs'[i].enc /\ accs'[i].seed # "plain" /\ accs'[i].pks # "plain" /\ ~accs'[i].pko)]_vars
ReloadFaithful == [][act'[1] = "Reload" => (Len(accs') = Len(disk.accs) /\ \A i \in DOMAIN accs' :
                        ToDict(accs'[i], NoPw) = disk.accs[i])]_vars
UnpackRight == [][act'[1] = "Unpack" => (act'[3] = (act'[2] = blob.pw))]_vars

\* reachability witnesses: every antecedent above is reachable.  One separate run (one worker) with a state CONSTRAINT and an
\* ACTION_CONSTRAINT that are always true and note in a register which witness was seen; the POSTCONDITION prints them.
W_WrongOnLocked == IsUnlock /\ WrongFor(St, act'[2]) /\ Cardinality(EncSB(St)) >= 2
W_RightOnLocked == IsUnlock /\ Locked(accs) /\ RightFor(St, act'[2]) /\ Cardinality(EncSB(St)) >= 2
W_WatchFlip == IsUnlock /\ act'[3] = FALSE /\ accs' # accs            \* a refused unlock flips the flag of a watch-only account
W_EncryptedWrite == wrote /\ pref /\ password # NoPw /\ \E i \in DOMAIN disk.accs : disk.accs[i].seed \in PW
W_StalePlain == ~NoPlaintextOnDiskState     \* a plain account saved while locked without password, then unlock: stale plaintext
W_ResetPref == act[1] = "Save" /\ ~pref /\ disk.exists /\ password = NoPw /\ DiskPlain(disk) /\ ops >= 3
W_UnpackWrong == act[1] = "Unpack" /\ act[3] = FALSE
W_Reloaded == act[1] = "Reload" /\ Locked(accs) /\ pref
WitnessNames == <<"W_WrongOnLocked", "W_RightOnLocked", "W_WatchFlip", "W_EncryptedWrite", "W_StalePlain", "W_ResetPref", "W_UnpackWrong", "W_Reloaded">>
MarkAction == /\ W_WrongOnLocked => TLCSet(1, TRUE)
              /\ W_RightOnLocked => TLCSet(2, TRUE)
              /\ W_WatchFlip => TLCSet(3, TRUE)
MarkState == /\ W_EncryptedWrite => TLCSet(4, TRUE)
             /\ W_StalePlain => TLCSet(5, TRUE)
             /\ W_ResetPref => TLCSet(6, TRUE)
             /\ W_UnpackWrong => TLCSet(7, TRUE)
             /\ W_Reloaded => TLCSet(8, TRUE)
WitReport == TLCGet("stats").diameter >= 0 /\ \A j \in DOMAIN WitnessNames : TLCGetOrDefault(j, FALSE) => PrintT(<<"WITNESS", WitnessNames[j]>>)
=============================================================================
