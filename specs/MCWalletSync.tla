------------------------------ MODULE MCWalletSync ------------------------------
EXTENDS WalletSync
\* t1: ext funds a1 (5).  t2: spends t1:1, pays a2 3 and ext 1.  t3: spends t2:1 (a2's), pays a1 2.
Txs == << [ins |-> {<<0, 1>>}, outs |-> << [addr |-> "a1", amt |-> 5] >>],
          [ins |-> {<<1, 1>>}, outs |-> << [addr |-> "a2", amt |-> 3], [addr |-> "ext", amt |-> 1] >>],
          [ins |-> {<<2, 1>>}, outs |-> << [addr |-> "a1", amt |-> 2] >>] >>
=============================================================================
