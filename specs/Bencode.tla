------------------------------ MODULE Bencode ------------------------------
(* C17, part 1 -- the DHT wire codec as a case-analytic specification.

   BYTES.  A datagram is a sequence of integers.  0..255 is a concrete byte.  A number >= 1000 is an
   OPAQUE RUN  Op(tag, n) = 1000*(tag+1)+n : n payload bytes (1 <= n <= 999) identified by `tag`
   (an rpc id, a node id, a blob hash, a token, error text).  The driver renders a run as the first n bytes
   of a deterministic stream chosen per tag; lengths, prefixes, counts and structure are decided here,
   payload bytes are opaque (DESIGN 6).  Tags >= 256 carry their first byte (tag % 256) so that a payload
   used as a dictionary key has a defined place in the key order.

   VALUES are trees:  [t |-> "i", v |-> n]  [t |-> "s", v |-> bytes]  [t |-> "l", v |-> <<values>>]
   [t |-> "d", v |-> << <<key, value>>, ... >>]   (keys are integers or byte strings - the LBRY dialect numbers
   the datagram fields with integer keys; a canonical dict has strictly increasing keys), and
   [t |-> "raw", v |-> bytes] which encodes to its bytes verbatim (used only to build malformed input).

   Enc     the encoder (sorts dictionary keys)
   Dec     the REFERENCE DECODER, written from the bencode grammar (not from lbry/dht/serialization):
             value ::= int | str | list | dict          int  ::= "i" ["-"] digit+ "e"
             str   ::= digit+ ":" byte{n}                list ::= "l" value* "e"
             dict  ::= "d" (key value)* "e"              key  ::= str | int
           It is total: every input gives either a value and the index after it, or a failure with a reason.
           `strict` is FALSE where the input departs from the canonical form in a way decoders commonly
           tolerate (leading zeros, "-0", unsorted/duplicate/mixed keys, bytes after the top-level value);
           such datagrams are judged for totality only.  Nesting deeper than MAXNEST is refused ("deep"):
           protocol messages nest at most 4 levels.
   Typed   the datagram typing rules (required fields by packet type, rpc id 20 bytes, node id 48 bytes,
           request method one of ping/store/findNode/findValue, args a list when present, error fields byte
           strings), RespTyped the payload rules (contact triples, pages of 54-byte compact addresses, token,
           optional page field), CompactAddr/DecodeCompact the 4+2+48 byte address.

   This module enumerates the protocol message shapes as initial states; TLC checks the laws below on each and
   emits it with the expected bytes; the driver holds the real bencode()/…Datagram.bencode()/decode_datagram()
   /make_compact_address()/decode_compact_address() to them.  DhtIngress.tla extends this module. *)
EXTENDS Integers, Sequences, FiniteSets, TLC, Json

CONSTANTS MAXNEST,     \* deepest nesting the reference decoder follows
          FULL,        \* TRUE: every combination 0..8 x 0..8 of contacts/peers in findValue responses
          EMIT         \* TRUE: print every case as JSON (emission run, one worker)

VARIABLE kase          \* the case under consideration (this module: a message shape; DhtIngress: an input datagram)

\* ---------------------------------------------------------------- bytes
Op(tag, n) == 1000 * (tag + 1) + n
IsOp(e) == e >= 1000
OpN(e) == e % 1000
OpTag(e) == (e \div 1000) - 1
OpLead(tag) == IF tag >= 256 THEN tag % 256 ELSE -1
Run(tag, n) == IF n = 0 THEN <<>> ELSE <<Op(tag, n)>>
W(e) == IF IsOp(e) THEN OpN(e) ELSE 1
RECURSIVE WeightFrom(_, _)
WeightFrom(s, i) == IF i > Len(s) THEN 0 ELSE W(s[i]) + WeightFrom(s, i + 1)
Weight(s) == WeightFrom(s, 1)
IsDigit(e) == e >= 48 /\ e <= 57
IsLetter(e) == (e >= 65 /\ e <= 90) \/ (e >= 97 /\ e <= 122)

PING      == <<112, 105, 110, 103>>                                   \* 'ping'
PONG      == <<112, 111, 110, 103>>                                   \* 'pong'
OKAY      == <<79, 75>>                                               \* 'OK'
STORE     == <<115, 116, 111, 114, 101>>                              \* 'store'
FINDNODE  == <<102, 105, 110, 100, 78, 111, 100, 101>>                \* 'findNode'
FINDVALUE == <<102, 105, 110, 100, 86, 97, 108, 117, 101>>            \* 'findValue'
PROTOVER  == <<112, 114, 111, 116, 111, 99, 111, 108, 86, 101, 114, 115, 105, 111, 110>>   \* 'protocolVersion'
PKEY      == <<112>>                                                  \* 'p'
TOKEN     == <<116, 111, 107, 101, 110>>                              \* 'token'
CONTACTS  == <<99, 111, 110, 116, 97, 99, 116, 115>>                  \* 'contacts'
ETYPE     == <<60, 99, 108, 97, 115, 115, 32, 39, 86, 97, 108, 117, 101, 69, 114, 114, 111, 114, 39, 62>>  \* "<class 'ValueError'>"
XYZ       == <<120, 121, 122>>                                        \* 'xyz'
METHODS   == {PING, STORE, FINDNODE, FINDVALUE}

\* opaque payload tags (the driver renders them)
T_RPC == 0   T_NODE == 1   T_KEY == 2   T_TOKEN == 3   T_PENDING == 4   T_SELF == 5   T_KNOWN == 6   T_TEXT == 7
T_BLOB0 == 8
T_CONTACT(i) == 10 + i          \* node ids of returned contacts, i in 0..15
T_PEER(i) == 30 + i             \* node ids inside compact addresses, i in 0..7
T_KEYLO == 256 + 1   T_KEYMID == 256 + 113   T_KEYHI == 256 + 240     \* blob hashes used as dictionary keys
MutTag(tag) == IF tag < 256 THEN tag + 50 ELSE tag + 256             \* the same payload with one byte changed

RECURSIVE NatText(_)
NatText(n) == IF n < 10 THEN <<48 + n>> ELSE NatText(n \div 10) \o <<48 + (n % 10)>>
IntText(n) == IF n < 0 THEN <<45>> \o NatText(-n) ELSE NatText(n)

\* ---------------------------------------------------------------- values
I(n) == [t |-> "i", v |-> n]
S(b) == [t |-> "s", v |-> b]
L(xs) == [t |-> "l", v |-> xs]
D(ps) == [t |-> "d", v |-> ps]
Raw(b) == [t |-> "raw", v |-> b]

Lead(e) == IF IsOp(e) THEN OpLead(OpTag(e)) ELSE e
RECURSIVE BytesLess(_, _)
BytesLess(a, b) ==
  IF a = <<>> THEN b # <<>>
  ELSE IF b = <<>> THEN FALSE
  ELSE IF IsOp(Head(a)) \/ IsOp(Head(b))
       THEN IF Head(a) = Head(b) THEN BytesLess(Tail(a), Tail(b))
            ELSE Assert(Lead(Head(a)) >= 0 /\ Lead(Head(b)) >= 0 /\ Lead(Head(a)) # Lead(Head(b)), "opaque keys need distinct lead bytes")
                 /\ Lead(Head(a)) < Lead(Head(b))
  ELSE IF Head(a) # Head(b) THEN Head(a) < Head(b)
  ELSE BytesLess(Tail(a), Tail(b))
KeyLess(k1, k2) ==
  IF k1.t = "i" /\ k2.t = "i" THEN k1.v < k2.v
  ELSE IF k1.t = "s" /\ k2.t = "s" THEN BytesLess(k1.v, k2.v)
  ELSE k1.t = "i" /\ k2.t = "s"
IsKey(k) == k.t \in {"i", "s"}
RECURSIVE InsertPair(_, _)
InsertPair(sorted, p) ==
  IF sorted = <<>> THEN <<p>>
  ELSE IF KeyLess(p[1], Head(sorted)[1]) THEN <<p>> \o sorted
  ELSE <<Head(sorted)>> \o InsertPair(Tail(sorted), p)
RECURSIVE SortFrom(_, _, _)
SortFrom(ps, i, acc) == IF i > Len(ps) THEN acc ELSE SortFrom(ps, i + 1, InsertPair(acc, ps[i]))
\* the encoder sorts comparable keys; anything else (only ever built as malformed input) keeps its order
SortPairs(ps) == IF \A i \in 1..Len(ps) : IsKey(ps[i][1]) /\ ps[i][1].t = ps[1][1].t THEN SortFrom(ps, 1, <<>>) ELSE ps
SortedUnique(ps) == /\ \A i \in 1..Len(ps) : ps[i][1].t = ps[1][1].t
                    /\ \A i \in 1..(Len(ps) - 1) : KeyLess(ps[i][1], ps[i + 1][1])

\* ---------------------------------------------------------------- the encoder
RECURSIVE Enc(_), EncSeq(_, _), EncPairs(_, _)
Enc(x) == CASE x.t = "i" -> <<105>> \o IntText(x.v) \o <<101>>
            [] x.t = "s" -> NatText(Weight(x.v)) \o <<58>> \o x.v
            [] x.t = "l" -> <<108>> \o EncSeq(x.v, 1) \o <<101>>
            [] x.t = "d" -> <<100>> \o EncPairs(SortPairs(x.v), 1) \o <<101>>
            [] x.t = "raw" -> x.v
EncSeq(xs, i) == IF i > Len(xs) THEN <<>> ELSE Enc(xs[i]) \o EncSeq(xs, i + 1)
EncPairs(ps, i) == IF i > Len(ps) THEN <<>> ELSE Enc(ps[i][1]) \o Enc(ps[i][2]) \o EncPairs(ps, i + 1)

\* ---------------------------------------------------------------- the reference decoder (from the grammar)
Fail(why) == [ok |-> FALSE, v |-> I(0), nx |-> 0, strict |-> TRUE, why |-> why]
Good(v, nx, strict) == [ok |-> TRUE, v |-> v, nx |-> nx, strict |-> strict, why |-> ""]

\* digits from position p: <<value, index after the digits, number of digits>>; value -1: ten digits or more
RECURSIVE ScanNum(_, _, _, _)
ScanNum(s, p, acc, nd) ==
  IF p <= Len(s) /\ IsDigit(s[p])
  THEN ScanNum(s, p + 1, IF nd >= 9 \/ acc < 0 THEN -1 ELSE acc * 10 + (s[p] - 48), nd + 1)
  ELSE <<acc, p, nd>>
\* index after n payload bytes starting at p; 0 if the input ends first, -1 if n ends inside an opaque run (the
\* rest of the run would then have to start a token, which payload bytes never do)
RECURSIVE Take(_, _, _)
Take(s, p, n) == IF n = 0 THEN p
                 ELSE IF p > Len(s) THEN 0
                 ELSE IF W(s[p]) > n THEN -1
                 ELSE Take(s, p + 1, n - W(s[p]))

DecInt(s, p) ==
  LET neg == p + 1 <= Len(s) /\ s[p + 1] = 45
      q == IF neg THEN p + 2 ELSE p + 1
      num == ScanNum(s, q, 0, 0)
  IN IF num[3] = 0 THEN Fail(IF q > Len(s) THEN "truncated" ELSE "badint")
     ELSE IF num[2] > Len(s) THEN Fail("truncated")
     ELSE IF s[num[2]] # 101 THEN Fail("badint")
     ELSE IF num[1] < 0 THEN Assert(FALSE, "integer beyond the model's range") /\ Fail("range")
     ELSE Good(I(IF neg THEN -num[1] ELSE num[1]), num[2] + 1,
               ~(num[3] > 1 /\ s[q] = 48) /\ ~(neg /\ num[1] = 0))
DecStr(s, p) ==
  LET num == ScanNum(s, p, 0, 0)
  IN IF num[2] > Len(s) THEN Fail("truncated")
     ELSE IF s[num[2]] # 58 THEN Fail("badlen")
     ELSE IF num[1] < 0 THEN Fail("truncated")
     ELSE LET e == Take(s, num[2] + 1, num[1])
          IN IF e = 0 THEN Fail("truncated")
             ELSE IF e < 0 THEN Fail("split")
             ELSE Good(S(SubSeq(s, num[2] + 1, e - 1)), e, ~(num[3] > 1 /\ s[p] = 48))

RECURSIVE Dec(_, _, _), DecList(_, _, _, _, _), DecDict(_, _, _, _, _)
Dec(s, p, depth) ==
  IF p > Len(s) THEN Fail("truncated")
  ELSE IF depth > MAXNEST THEN Fail("deep")
  ELSE CASE s[p] = 105 -> DecInt(s, p)
         [] s[p] = 108 -> DecList(s, p + 1, depth, <<>>, TRUE)
         [] s[p] = 100 -> DecDict(s, p + 1, depth, <<>>, TRUE)
         [] IsDigit(s[p]) -> DecStr(s, p)
         [] OTHER -> Fail("badtoken")
DecList(s, p, depth, acc, strict) ==
  IF p > Len(s) THEN Fail("truncated")
  ELSE IF s[p] = 101 THEN Good(L(acc), p + 1, strict)
  ELSE LET r == Dec(s, p, depth + 1)
       IN IF ~r.ok THEN r ELSE DecList(s, r.nx, depth, Append(acc, r.v), strict /\ r.strict)
DecDict(s, p, depth, acc, strict) ==
  IF p > Len(s) THEN Fail("truncated")
  ELSE IF s[p] = 101 THEN Good(D(acc), p + 1, strict /\ SortedUnique(acc))
  ELSE LET k == Dec(s, p, depth + 1)
       IN IF ~k.ok THEN k
          ELSE IF ~IsKey(k.v) THEN Fail("badkey")
          ELSE LET r == Dec(s, k.nx, depth + 1)
               IN IF ~r.ok THEN r
                  ELSE DecDict(s, r.nx, depth, Append(acc, <<k.v, r.v>>), strict /\ k.strict /\ r.strict)
DecodeAll(s) ==
  IF s = <<>> THEN Fail("empty")
  ELSE LET r == Dec(s, 1, 0)
       IN IF r.ok /\ r.nx <= Len(s) THEN [r EXCEPT !.strict = FALSE, !.why = "trailing"] ELSE r

\* ---------------------------------------------------------------- datagram typing rules
\* field i of a datagram lives under the integer key i or under the byte-string key of its decimal digits
FieldName(k) == IF k.t = "i" THEN IntText(k.v) ELSE k.v
Has(x, i) == \E j \in 1..Len(x.v) : FieldName(x.v[j][1]) = NatText(i)
Get(x, i) == x.v[CHOOSE j \in 1..Len(x.v) : FieldName(x.v[j][1]) = NatText(i)][2]
Ambiguous(x) == x.t = "d" /\ \E i, j \in 1..Len(x.v) : i # j /\ FieldName(x.v[i][1]) = FieldName(x.v[j][1])
IsStr(x, n) == x.t = "s" /\ Weight(x.v) = n
Typed(x) ==
  /\ x.t = "d"
  /\ Has(x, 0) /\ Get(x, 0).t = "i" /\ Get(x, 0).v \in {0, 1, 2}
  /\ Has(x, 1) /\ IsStr(Get(x, 1), 20)
  /\ Has(x, 2) /\ IsStr(Get(x, 2), 48)
  /\ Has(x, 3)
  /\ CASE Get(x, 0).v = 0 -> /\ Get(x, 3).t = "s" /\ Get(x, 3).v \in METHODS
                             /\ (Has(x, 4) => Get(x, 4).t = "l")
       [] Get(x, 0).v = 1 -> TRUE
       [] Get(x, 0).v = 2 -> Get(x, 3).t = "s" /\ Has(x, 4) /\ Get(x, 4).t = "s"
\* "garbage" | "wellformed" | "lenient"
Class(r) == IF ~r.ok THEN "garbage"
            ELSE IF Ambiguous(r.v) THEN "lenient"
            ELSE IF ~Typed(r.v) THEN "garbage"
            ELSE IF r.strict THEN "wellformed" ELSE "lenient"

\* compact peer address: 4 address bytes, 2 port bytes (big endian), 48 byte node id
CompactAddr(ip, port, idtag, idlen) == ip \o <<port \div 256, port % 256>> \o <<Op(idtag, idlen)>>
CompactArgsOK(ip, port, idlen) == Len(ip) = 4 /\ port > 0 /\ port < 65536 /\ idlen = 48
CompactOK(b) == /\ Weight(b) = 54 /\ Len(b) = 7 /\ \A i \in 1..6 : ~IsOp(b[i])
                /\ IsOp(b[7]) /\ OpN(b[7]) = 48
                /\ b[5] * 256 + b[6] > 0
DecodeCompact(b) == [ip |-> SubSeq(b, 1, 4), port |-> b[5] * 256 + b[6], id |-> OpTag(b[7])]
IpText(ip) == NatText(ip[1]) \o <<46>> \o NatText(ip[2]) \o <<46>> \o NatText(ip[3]) \o <<46>> \o NatText(ip[4])

\* payload rules of the responses this protocol sends
IsTriple(x) == x.t = "l" /\ Len(x.v) = 3 /\ IsStr(x.v[1], 48) /\ x.v[2].t = "s" /\ x.v[3].t = "i" /\ x.v[3].v \in 1..65535
IsTripleList(x, max) == x.t = "l" /\ Len(x.v) <= max /\ \A i \in 1..Len(x.v) : IsTriple(x.v[i])
HasKey(x, k) == \E j \in 1..Len(x.v) : x.v[j][1] = S(k)
At(x, k) == x.v[CHOOSE j \in 1..Len(x.v) : x.v[j][1] = S(k)][2]
IsFindValueResp(x) ==
  /\ x.t = "d"
  /\ HasKey(x, TOKEN) /\ IsStr(At(x, TOKEN), 48)
  /\ HasKey(x, PKEY) /\ At(x, PKEY).t = "i" /\ At(x, PKEY).v >= 0               \* the (optional) page field
  /\ (HasKey(x, CONTACTS) => IsTripleList(At(x, CONTACTS), 8))
  /\ (HasKey(x, PROTOVER) => At(x, PROTOVER) = I(1))
  /\ \A j \in 1..Len(x.v) :
       x.v[j][1].v \in {TOKEN, PKEY, CONTACTS, PROTOVER}
       \/ /\ IsStr(x.v[j][1], 48)                                               \* the blob hash -> a page of peers
          /\ x.v[j][2].t = "l" /\ Len(x.v[j][2].v) \in 1..8
          /\ \A i \in 1..Len(x.v[j][2].v) : x.v[j][2].v[i].t = "s" /\ CompactOK(x.v[j][2].v[i].v)
RespTyped(x) == \/ x = S(PONG) \/ x = S(OKAY) \/ IsTripleList(x, 16) \/ IsFindValueResp(x)

\* ---------------------------------------------------------------- protocol messages
PV == <<S(PROTOVER), I(1)>>
Envelope(ty, rpc, node, rest) == D(<< <<I(0), I(ty)>>, <<I(1), S(rpc)>>, <<I(2), S(node)>> >> \o rest)
Req(rpc, node, method, args) == Envelope(0, rpc, node, << <<I(3), S(method)>>, <<I(4), L(args)>> >>)
Resp(rpc, node, payload) == Envelope(1, rpc, node, << <<I(3), payload>> >>)
Err(rpc, node, etype, text) == Envelope(2, rpc, node, << <<I(3), S(etype)>>, <<I(4), S(text)>> >>)
RPC == Run(T_RPC, 20)
NODE == Run(T_NODE, 48)
PingReq == Req(RPC, NODE, PING, <<D(<<PV>>)>>)
StoreReq(port) == Req(RPC, NODE, STORE, <<S(Run(T_KEY, 48)), S(Run(T_TOKEN, 48)), I(port), S(NODE), I(0), D(<<PV>>)>>)
FindNodeReq == Req(RPC, NODE, FINDNODE, <<S(Run(T_KEY, 48)), D(<<PV>>)>>)
FindValueReq(page) == Req(RPC, NODE, FINDVALUE, <<S(Run(T_KEY, 48)), D(<< <<S(PKEY), I(page)>>, PV >>)>>)
ContactIp(i) == <<1 + (i % 3) * 99, 2 + i, 30 * (i % 9), 255 - i>>
ContactPort(i) == IF i = 0 THEN 1024 ELSE IF i = 1 THEN 65535 ELSE 4000 + 37 * i
Triple(i) == L(<<S(Run(T_CONTACT(i), 48)), S(IpText(ContactIp(i))), I(ContactPort(i))>>)
Contacts(n) == L([i \in 1..n |-> Triple(i - 1)])
PeerAddr(i) == S(CompactAddr(<<1, 2, 3, 30 + i>>, IF i = 0 THEN 3333 ELSE IF i = 1 THEN 65535 ELSE 1024 + 255 * i, T_PEER(i), 48))
Peers(n) == L([i \in 1..n |-> PeerAddr(i - 1)])
FindValueResp(hasContacts, nc, np, keytag, pages, pv) ==
  D(SortPairs(<< <<S(TOKEN), S(Run(T_TOKEN, 48))>>, <<S(PKEY), I(pages)>> >>
              \o (IF hasContacts THEN << <<S(CONTACTS), Contacts(nc)>> >> ELSE <<>>)
              \o (IF pv THEN <<PV>> ELSE <<>>)
              \o (IF np > 0 THEN << <<S(Run(keytag, 48)), Peers(np)>> >> ELSE <<>>)))

\* ---------------------------------------------------------------- the enumerated shapes
Counts == IF FULL THEN 0..8 ELSE {0, 1, 2, 8}
MsgCases ==
  {[k |-> "msg", name |-> "ping", tree |-> PingReq], [k |-> "msg", name |-> "findNode", tree |-> FindNodeReq]}
  \cup {[k |-> "msg", name |-> "store", tree |-> StoreReq(p)] : p \in {1, 3333, 65534, 65535}}
  \cup {[k |-> "msg", name |-> "findValue", tree |-> FindValueReq(p)] : p \in {0, 1, 9, 10, 300}}
  \cup {[k |-> "msg", name |-> "pong", tree |-> Resp(RPC, NODE, S(PONG))],
        [k |-> "msg", name |-> "stored", tree |-> Resp(RPC, NODE, S(OKAY))]}
  \cup {[k |-> "msg", name |-> "nodes", tree |-> Resp(RPC, NODE, Contacts(n))] : n \in 0..16}
  \cup {[k |-> "msg", name |-> "value", tree |-> Resp(RPC, NODE, FindValueResp(hc, nc, np, kt, pg, pv))] :
           hc \in BOOLEAN, nc \in Counts, np \in Counts, kt \in {T_KEYLO, T_KEYMID, T_KEYHI}, pg \in {0, 1, 12}, pv \in BOOLEAN}
  \cup {[k |-> "msg", name |-> "error", tree |-> Err(RPC, NODE, et, Run(T_TEXT, n))] :
           et \in {ETYPE, <<>>}, n \in {0, 1, 9, 10, 99, 100, 300, 999}}
CompactCases ==
  {[k |-> "compact", ip |-> ip, port |-> port, idtag |-> T_PEER(0), idlen |-> n] :
     ip \in {<<1, 2, 3, 4>>, <<255, 255, 255, 255>>, <<9, 10, 99, 100>>, <<101, 105, 108, 58>>, <<0, 0, 0, 1>>, <<1, 2, 3>>, <<1, 2, 3, 4, 5>>},
     port \in {0, 1, 255, 256, 1024, 4444, 65535, 65536}, n \in {47, 48, 49}}
BCases == MsgCases \cup CompactCases

BInit == kase \in BCases
BNext == UNCHANGED kase
BSpec == BInit /\ [][BNext]_kase

\* ---------------------------------------------------------------- laws TLC checks on every shape (Leg A)
IsMsg == kase.k = "msg"
\* decoding the encoding gives the same tree, consumes exactly the input, and the encoding is canonical
RoundTrip == IsMsg => LET e == Enc(kase.tree)  r == DecodeAll(e)
                      IN r.ok /\ r.strict /\ r.v = kase.tree /\ r.nx = Len(e) + 1
\* every enumerated message is a well-formed protocol message under the typing rules, payload included
MsgTyped == IsMsg => /\ Class(DecodeAll(Enc(kase.tree))) = "wellformed"
                     /\ (Get(kase.tree, 0).v = 1 => RespTyped(Get(kase.tree, 3)))
\* re-encoding what was decoded reproduces the bytes (the encoder and the grammar agree on the canonical form)
ReEncode == IsMsg => Enc(DecodeAll(Enc(kase.tree)).v) = Enc(kase.tree)
\* compact addresses: 54 bytes, and decoding gives back address, port and id exactly when the arguments are valid
CompactValid == kase.k = "compact" /\ CompactArgsOK(kase.ip, kase.port, kase.idlen)
CompactRoundTrip == CompactValid =>
   LET b == CompactAddr(kase.ip, kase.port, kase.idtag, kase.idlen)
   IN CompactOK(b) /\ DecodeCompact(b) = [ip |-> kase.ip, port |-> kase.port, id |-> kase.idtag]
\* four address bytes with port 0, or an id that is not 48 bytes long, do not decode
CompactRefused == (kase.k = "compact" /\ Len(kase.ip) = 4 /\ kase.port < 65536 /\ ~CompactValid)
                     => ~CompactOK(CompactAddr(kase.ip, kase.port, kase.idtag, kase.idlen))

\* ---------------------------------------------------------------- emission (Leg B)
BCase == IF IsMsg THEN [k |-> "msg", name |-> kase.name, tree |-> kase.tree, bytes |-> Enc(kase.tree)]
         ELSE [k |-> "compact", ip |-> kase.ip, port |-> kase.port, idtag |-> kase.idtag, idlen |-> kase.idlen,
               ok |-> CompactValid,
               \* the bytes to decode: the address itself when valid, else the nearest thing that can be written down
               bytes |-> IF Len(kase.ip) = 4 /\ kase.port < 65536 THEN CompactAddr(kase.ip, kase.port, kase.idtag, kase.idlen) ELSE <<>>]
BEmit == EMIT => PrintT(<<"CASE", ToJson(BCase)>>)
=============================================================================
