------------------------------- MODULE Merkle -------------------------------
(* C08 -- SPV: a transaction is marked verified only with a Merkle proof to its header.

   Case-analytic specification (the Dewies.tla pattern).  The module defines

     * Bitcoin's Merkle tree over abstract leaves with a SYMBOLIC INJECTIVE pairing: a leaf is the 1-tuple
       <<j>>, an inner node is the 2-tuple H(l, r) = <<l, r>>; two terms are equal iff they are the same tree, which
       is exactly "double-SHA-256 has no collisions and a transaction id is never an inner node".  An odd level
       duplicates its last node before pairing (Pad).
     * Proof(n, p): the sibling branch and the position of leaf p, as a wallet server produces them.
     * Fold: lbry/wallet/ledger.py Ledger.get_root_of_merkle_tree -- bit k of `pos` says whether the k-th branch
       element goes on the LEFT of the working hash.
     * Run: lbry/wallet/ledger.py Ledger.maybe_verify_transaction transcribed statement by statement on a fresh
       transaction (height -2, position -1, not verified) and a local chain of HLEN headers (heights 0..HLEN-1)
       whose header at height `blk` carries the root of the n-leaf tree and whose other headers carry other roots.

   The cases the property quantifies over are the INITIAL STATES: every block size n, every index i, every home
   height blk, and every single mutation of the genuine proof (Muts).  TLC checks the laws below on every case
   and emits every case with the verdict Run computes; the driver (harness/c08_merkle.py) concretises each case
   with real transactions, an independent double-SHA-256 tree, a real Headers object and the real Ledger.

   Nodes of the tree are named by DESCRIPTORS <<L, x>> = node x (0-based) of the PADDED level L (level 0 = the
   leaves); <<-1, x>> is a node foreign to the block.  A proof in a case is a sequence of descriptors, so that an
   emitted case stays small for n = 64 and the driver can concretise it from its own tree; Term(n, d) gives the
   symbolic term of a descriptor. *)
EXTENDS Integers, Sequences, FiniteSets, TLC, Json

CONSTANTS NMIN, NMAX,   \* block sizes n \in NMIN..NMAX
          HLEN,         \* len(headers) of the local chain: heights 0..HLEN-1 are stored
          LEAFALL,      \* for n <= LEAFALL every other leaf / every same-level node is tried as a substitute
          EMIT          \* TRUE: print every case as JSON (emission run, one worker)

VARIABLES n,            \* number of transactions in the block
          i,            \* 0-based index of the transaction whose genuine proof is mutated
          blk,          \* height at which the block's header is stored locally
          m             \* the (possibly mutated) server answer and claim:
                        \*   [kind, k, branch : Seq(descriptor), pos, leaf (tx index, -1 = altered tx), hasm ('merkle' key present), hc (claimed height)]
vars == <<n, i, blk, m>>

\* ---------------------------------------------------------------- symbolic hashing
Leaf(j) == <<j>>                 \* j >= 0: transaction j of the block; j < 0: something foreign to the block
H(l, r) == <<l, r>>              \* injective pairing

Pad(lv) == IF Len(lv) > 1 /\ Len(lv) % 2 = 1 THEN Append(lv, lv[Len(lv)]) ELSE lv      \* duplicate-last-node rule
Up(lv) == LET e == Pad(lv) IN [x \in 1..(Len(e) \div 2) |-> H(e[2 * x - 1], e[2 * x])]
RECURSIVE LevelsFrom(_)
LevelsFrom(lv) == IF Len(lv) = 1 THEN <<lv>> ELSE <<lv>> \o LevelsFrom(Up(lv))
Tree == [nn \in NMIN..NMAX |-> LevelsFrom([x \in 1..nn |-> Leaf(x - 1)])]            \* all levels, leaves first
Depth(nn) == Len(Tree[nn]) - 1
Root(nn) == Tree[nn][Depth(nn) + 1][1]
Width(nn, L) == Len(Pad(Tree[nn][L + 1]))
Term(nn, d) == IF d[1] < 0 THEN Leaf(0 - 2 - d[2]) ELSE Pad(Tree[nn][d[1] + 1])[d[2] + 1]

\* ---------------------------------------------------------------- the genuine proof
Sib(x) == IF x % 2 = 0 THEN x + 1 ELSE x - 1
RECURSIVE BranchFrom(_, _, _)
BranchFrom(nn, L, p) == IF L = Depth(nn) THEN <<>> ELSE <<<<L, Sib(p)>>>> \o BranchFrom(nn, L + 1, p \div 2)
Proof(nn, p) == [branch |-> BranchFrom(nn, 0, p), pos |-> p]
PathNode(p, L) == <<L, p \div (2 ^ L)>>          \* the node above leaf p at level L

\* ---------------------------------------------------------------- the code: get_root_of_merkle_tree
Bit(pos, k) == (pos \div (2 ^ k)) % 2
RECURSIVE FoldFrom(_, _, _, _)
FoldFrom(br, pos, w, k) ==
  IF k > Len(br) THEN w
  ELSE FoldFrom(br, pos, IF Bit(pos, k - 1) = 1 THEN H(br[k], w) ELSE H(w, br[k]), k + 1)
Fold(br, pos, w) == FoldFrom(br, pos, w, 1)

\* ---------------------------------------------------------------- the code: maybe_verify_transaction
HeaderRoot(h) == IF h = blk THEN Root(n) ELSE Leaf(0 - 1000 - h)       \* merkle_root of the stored header at height h
Guard(h) == 0 < h /\ h < HLEN
TxTerm == IF m.leaf < 0 THEN Leaf(0 - 1) ELSE Leaf(m.leaf)
BranchTerms == [k \in 1..Len(m.branch) |-> Term(n, m.branch[k])]
FoldT == Fold(BranchTerms, m.pos, TxTerm)
Tx0 == [height |-> 0 - 2, position |-> 0 - 1, verified |-> FALSE]
Run == LET t1 == [Tx0 EXCEPT !.height = m.hc] IN                            \* tx.height = remote_height
       IF ~Guard(m.hc) THEN t1                                              \* if 0 < remote_height < len(self.headers):
       ELSE IF ~m.hasm THEN t1                                              \*   if 'merkle' not in merkle: return
       ELSE [t1 EXCEPT !.position = m.pos,                                  \*   tx.position = merkle['pos']
                       !.verified = (FoldT = HeaderRoot(m.hc))]             \*   tx.is_verified = merkle_root == header['merkle_root']

\* ---------------------------------------------------------------- mutations
Remove(q, k) == SubSeq(q, 1, k - 1) \o SubSeq(q, k + 1, Len(q))
Insert(q, k, v) == SubSeq(q, 1, k - 1) \o <<v>> \o SubSeq(q, k, Len(q))
FlipBit(p, k) == IF Bit(p, k) = 1 THEN p - 2 ^ k ELSE p + 2 ^ k
DropBit(p, k) == (p % (2 ^ k)) + (p \div (2 ^ (k + 1))) * (2 ^ k)           \* remove bit k, shift the higher ones down
Home(nn, p) == 1 + ((nn + p) % (HLEN - 1))                                   \* proof mutations are tried at one valid height
Foreign == <<0 - 1, 0>>

Base(nn, p, b) == [kind |-> "none", k |-> 0, branch |-> Proof(nn, p).branch, pos |-> p, leaf |-> p, hasm |-> TRUE, hc |-> b]

HeightMuts(nn, p, b) ==
  {Base(nn, p, b)} \cup {[Base(nn, p, b) EXCEPT !.kind = "height", !.k = h, !.hc = h] : h \in ((0 - 2)..(HLEN + 2)) \ {b}}

Substitutes(nn, p, k) ==          \* what may replace branch element k (level k-1)
  LET g == Proof(nn, p).branch IN
  ({Foreign, PathNode(p, k - 1)} \cup {g[k2] : k2 \in (1..Len(g)) \ {k}}
     \cup (IF nn <= LEAFALL THEN {<<k - 1, x>> : x \in 0..(Width(nn, k - 1) - 1)} ELSE {})) \ {g[k]}
LeafAlts(nn, p) ==
  (IF nn <= LEAFALL THEN (0 - 1)..(nn - 1) ELSE {0 - 1, Sib(p), p - 1, p + 1, 0, nn - 1} \cap ((0 - 1)..(nn - 1))) \ {p}

ProofMuts(nn, p, b) ==
  LET base == Base(nn, p, b)
      g == base.branch
      d == Len(g)
  IN UNION {{[base EXCEPT !.kind = "replace", !.k = k, !.branch[k] = v] : v \in Substitutes(nn, p, k)} : k \in 1..d}
     \cup {[base EXCEPT !.kind = "flip", !.k = k, !.pos = FlipBit(p, k)] : k \in 0..(d + 1)}
     \cup {[base EXCEPT !.kind = "drop", !.k = k, !.branch = Remove(g, k)] : k \in 1..d}
     \cup {[base EXCEPT !.kind = "dropshift", !.k = k, !.branch = Remove(g, k), !.pos = DropBit(p, k - 1)] : k \in 1..d}
     \cup UNION {{[base EXCEPT !.kind = "insert", !.k = k, !.branch = Insert(g, k, v)] : v \in {Foreign, PathNode(p, k - 1)}} : k \in 1..(d + 1)}
     \cup {[base EXCEPT !.kind = "leaf", !.k = j, !.leaf = j] : j \in LeafAlts(nn, p)}
     \cup {[base EXCEPT !.kind = "nomerkle", !.hasm = FALSE]}

Muts(nn, p, b) == HeightMuts(nn, p, b) \cup (IF b = Home(nn, p) THEN ProofMuts(nn, p, b) ELSE {})

Init == /\ n \in NMIN..NMAX
        /\ i \in 0..(n - 1)
        /\ blk \in 0..(HLEN - 1)
        /\ m \in Muts(n, i, blk)
Next == UNCHANGED vars
Spec == Init /\ [][Next]_vars

\* ---------------------------------------------------------------- what TLC checks on the model (Leg A)
G == Proof(n, i).branch
\* the property's first sentence: verified only if the fold reproduces the root of the stored header at the claimed height
Sound == Run.verified => (Guard(m.hc) /\ m.hasm /\ FoldT = HeaderRoot(m.hc) /\ Run.height = m.hc)
\* every genuine proof of a block whose header the wallet holds (above height 0) is accepted, with its position
Complete == (m.kind = "none" /\ Guard(blk)) => (Run.verified /\ Run.position = i /\ Run.height = blk)
\* the tree and the code's fold agree: folding the genuine branch from the leaf gives the root (independent of heights)
FoldGenuine == Fold([k \in 1..Len(G) |-> Term(n, G[k])], i, Leaf(i)) = Root(n)
\* heights the wallet has no header for, 0 and negative heights: never verified, position untouched
NoHeader == ~Guard(m.hc) => (~Run.verified /\ Run.position = 0 - 1)
\* a mutated proof presented at the block's own valid height verifies IFF its symbolic fold is the root term (DESIGN 8)
ModuloFold == (m.kind # "none" /\ m.hasm /\ Guard(m.hc) /\ m.hc = blk) => (Run.verified <=> FoldT = Root(n))
\* characterisation of when that can happen at all (theorems about Bitcoin's tree, checked on every case):
LeafRejected == m.kind = "leaf" => ~Run.verified                         \* another transaction never passes
LengthRejected == m.kind \in {"drop", "dropshift", "insert"} => ~Run.verified  \* a shorter or longer branch never passes
HeightRejected == m.kind = "height" => ~Run.verified                     \* another height never passes
NoMerkleRejected == m.kind = "nomerkle" => (~Run.verified /\ Run.position = 0 - 1)
ReplaceIff == m.kind = "replace" => (Run.verified <=> Term(n, m.branch[m.k]) = Term(n, G[m.k]))   \* only the same hash passes
\* a flipped position bit passes iff the bit is above the branch, or the sibling at that level is the node's own duplicate
FlipIff == m.kind = "flip" => (Run.verified <=> (m.k >= Len(G) \/ Term(n, G[m.k + 1]) = Term(n, PathNode(i, m.k))))

\* ---------------------------------------------------------------- emission (Leg B): one JSON line per case
Changed == m.hasm /\ (BranchTerms # [k \in 1..Len(G) |-> Term(n, G[k])] \/ m.pos # i \/ m.leaf # i \/ m.hc # blk)
Case == [n |-> n, i |-> i, blk |-> blk, hlen |-> HLEN, kind |-> m.kind, k |-> m.k, branch |-> m.branch, pos |-> m.pos,
         leaf |-> m.leaf, hasm |-> m.hasm, hc |-> m.hc, changed |-> Changed,
         verified |-> Run.verified, position |-> Run.position, height |-> Run.height]
Emit == EMIT => PrintT(<<"CASE", ToJson(Case)>>)
=============================================================================
