------------------------------ MODULE Reflector ------------------------------
(* G03 -- the reflector protocol: lbry/stream/reflector/server.py (ReflectorServerProtocol), client.py
   (StreamReflectorClient) as driven by ManagedStream.upload_to_reflector, the blob writer underneath
   (blob_file.py / writer.py, reduced as in BlobWrite.tla to "count, and compare the hash when the announced length is
   reached"), and the two byte channels between them.

   A stream has the descriptor blob 0 and the data blobs 1..nb; blob b is blen[b] payload units long.
   What travels is a sequence of UNITS per direction; the channel actions cut and glue them, so every re-chunking of
   the TCP stream at that granularity is a behaviour.  Units client -> server:
      ver              {"version": 1}                                (any version number: the server never looks at it)
      sdo(sz)          {"sd_blob_hash": h0, "sd_blob_size": sz}      sz in ok / short / long (a lying client)
      bo(b, sz)        {"blob_hash": hb, "blob_size": sz}            b = nb+1: a hash that is not in the stream
      d(b, off, n, g)  n payload units; g: they are the bytes off..off+n-1 of blob b
      J                a JSON object without the key the server's state asks for (a whole descriptor blob arriving while
                       the server does not expect payload is one of those: it IS a JSON object)
      X                bytes that do not decode as one JSON document (also: JSON of the wrong type, a request without
                       its size key: the request task dies, nothing else happens)
      h1(u) hm(u) h2(u)  first / middle / last fragment of message u (none decodes alone)
   Units server -> client: ver, ssd(v, needs), rsd(v), sb(v), rb(v) and fragments of those.

   THE SERVER AS FOUND HAS NO REQUEST BUFFER: data_received decodes each chunk on its own and silently drops what
   does not decode (REASSEMBLE = FALSE).  REASSEMBLE = TRUE is the server the statement had in mind (buffer until
   the JSON is complete, close on garbage); it shows which clauses depend on that.

   Server actions follow the await points of handle_request: TaskStart (up to the first await), FileWritten (the
   executor job that writes the verified bytes; only then is the blob verified), Verified (wait_for(verified) returns),
   Load1 / Load2 (StreamDescriptor.from_stream_descriptor_blob), SrvTimeout (the 30 s wait_for), Flush (send_response
   defers its transport.write by two loop iterations: a response queued before transport.close() is never written).
   The client actions follow send_handshake / send_descriptor / send_blob and the loop of upload_to_reflector;
   CliTimeout is the 180 s / 30 s wait_for.  Timers fire only when nothing else can happen (a network much faster than
   30 s) unless SLOW.  Cut is a disconnect at any point; closing one end reaches the other after the bytes in flight.
   There is no idle timer on the server: a silent client keeps its connection for ever.

   WHERE THE CODE DIFFERS FROM THE STATEMENT in growth.jsonl (modelled as the code is; the clauses are restated below):
     D1 NoRequestBuffer   a request cut in transit is dropped, the session stalls into the client's 180 s timeout
                          (REASSEMBLE = FALSE; HonestCompletes fails under REQSPLIT: recorded finding
                          server-drops-request-split-across-segments).  Safety is unaffected.
     D2 GarbageIgnored    bytes that do not decode (X), JSON of a wrong type, a request lacking its size key or naming a
                          non-hex hash are IGNORED, the connection stays open; only a JSON object/list/string without
                          the key the state asks for (J) closes it: GarbageCloses is stated for J only.  "Oversized"
                          has no meaning without a buffer: a huge object in one chunk is a J, in fragments it is X's.
     D3 AnyVersion        the server never looks at the version number (0, 99, "x", [1] are all answered {"version": 1});
                          only the CLIENT refuses a server version other than 1.
     D4 NoIdleTimer       a silent client keeps its connection (and, mid-transfer, its writer for 30 s) for ever.
     D5 LostRefusal       {"received_sd_blob": false} is queued and then transport.close() is called: it is never written
                          (Flush after close); the client sees the close, not the refusal.
     D6 AckWaitNotCancelled  connection_lost cancels pending_request only; a client waiting for received_* sits out its 30 s.
     D7 FullyOnRefusal    a refused descriptor (rsd false, reachable only with a hostile server because of D5) makes
                          upload_to_reflector mark the stream fully reflected (`not sent_sd and not needed`).
     D8 ClaimedLength     the writer waits for the length the CLIENT announced (Need); the blob object keeps that length
                          after the session (not modelled here: it is a property of the store across sessions; Leg C
                          follows every hostile session by an honest one: finding wrong-offered-size-sticks-on-server-blob).
     D9 SharedIncoming    all connections of one ReflectorServer share the `incoming` event: ReflectorShared.tla.

   Negative controls (constants): VERIFY = FALSE (the server stores whatever arrives once the length is reached),
   OBEYNEEDS = FALSE (the client sends the bytes although the server answered send_blob false),
   CLOSEWRITER = FALSE (the request task forgets to close the incoming writer). *)
EXTENDS Naturals, Sequences, FiniteSets, TLC

CONSTANTS NB,          \* number of data blobs
          CH,          \* payload units per blob
          PARTIALN,    \* partial_needs: the first answer lists at most this many needed blobs (3 in the code)
          KINDS,       \* subset of {"honest", "hostile"}
          SCRIPTS,     \* unit sequences a hostile client sends (it ignores the answers and may pipeline)
          PARTIALS,    \* subset of BOOLEAN: is the server in partial_needs mode
          REASSEMBLE, REQSPLIT, RESPSPLIT, VERIFY, OBEYNEEDS, CLOSEWRITER, CUT, SLOW

VARIABLES nb, blen,    \* the stream (fixed during a behaviour)
          held0,       \* what the server held verified before the session
          store,       \* blobs the server holds verified (file written, verified event set, blob_completed called)
          badstore,    \* those of them whose bytes are not the blob's (must stay empty)
          pend,        \* verified bytes handed to the executor, file not yet written: set of [b, good]
          partial,     \* partial_event still clear
          c2s, s2c,    \* the channels
          link,        \* "up" | "down"
          S,           \* server side of the connection
          C,           \* client
          script, hpos,
          H            \* history, used by the invariants only
vars == <<nb, blen, held0, store, badstore, pend, partial, c2s, s2c, link, S, C, script, hpos, H>>
stream == <<nb, blen, held0, script>>

Blobs == 0..nb
Data == 1..nb
FOREIGN == nb + 1
Ver == [k |-> "ver"]
SdO(sz) == [k |-> "sdo", sz |-> sz]
BO(b, sz) == [k |-> "bo", b |-> b, sz |-> sz]
D(b, off, n, g) == [k |-> "d", b |-> b, off |-> off, n |-> n, g |-> g]
J == [k |-> "J"]
X == [k |-> "X"]
H1(u) == [k |-> "h1", of |-> u]
HM(u) == [k |-> "hm", of |-> u]
H2(u) == [k |-> "h2", of |-> u]
IsFrag(u) == u.k \in {"h1", "hm", "h2"}
\* a complete descriptor blob is itself a JSON object (without any of the request keys)
IsWholeSd(u) == u.k = "d" /\ u.g /\ u.b = 0 /\ u.off = 0 /\ u.n = blen[0]
IsReq(u) == u.k \in {"ver", "sdo", "bo", "J"} \/ IsWholeSd(u)
RVer == [k |-> "ver"]
RSsd(v, needs) == [k |-> "ssd", v |-> v, needs |-> needs]
RRsd(v) == [k |-> "rsd", v |-> v]
RSb(v) == [k |-> "sb", v |-> v]
RRb(v) == [k |-> "rb", v |-> v]

NoW == [set |-> FALSE, b |-> 0, need |-> 0, got |-> 0, good |-> FALSE, open |-> FALSE]
\* the length the writer waits for is the one the CLIENT announced
\* (a recorded real request carries the announced number itself in a field `need`)
Need(b, u) == IF "need" \in DOMAIN u THEN u.need
              ELSE IF b > nb THEN 1 ELSE IF u.sz = "ok" THEN blen[b] ELSE IF u.sz = "short" THEN blen[b] - 1 ELSE blen[b] + 1
NewW(b, u) == [set |-> TRUE, b |-> b, need |-> Need(b, u), got |-> 0, good |-> TRUE, open |-> TRUE]
ToSet(q) == {q[i] : i \in DOMAIN q}
RECURSIVE SeqOf(_, _)
SeqOf(lo, set) == IF lo > nb THEN <<>> ELSE (IF lo \in set THEN <<lo>> ELSE <<>>) \o SeqOf(lo + 1, set)
Missing == SeqOf(1, Data \ store)
First(q, n) == IF Len(q) <= n THEN q ELSE SubSeq(q, 1, n)

S0 == [ver |-> FALSE, sd |-> FALSE, desc |-> FALSE, inc |-> FALSE, wr |-> NoW, tasks |-> <<>>, closed |-> FALSE,
       buf |-> <<>>, lost |-> FALSE, outq |-> <<>>]
C0(kd) == [kind |-> kd, pc |-> IF kd = "honest" THEN "start" ELSE "hostile", cur |-> 0, plan |-> <<>>, buf |-> <<>>,
           closed |-> FALSE, lost |-> FALSE, needs |-> <<>>, given |-> FALSE]
H0(p) == [cut |-> FALSE, to |-> FALSE, badx |-> FALSE, failans |-> FALSE, jh |-> FALSE, orphans |-> 0,
          offered |-> {}, datafor |-> {}, asked |-> {}, reflected |-> {}, sent |-> <<>>, fully |-> FALSE,
          dropped |-> FALSE, p0 |-> p]
InitWith(n) ==
  /\ nb = n /\ blen = [b \in 0..n |-> CH]
  /\ held0 \in SUBSET (0..n) /\ store = held0 /\ badstore = {} /\ pend = {}
  /\ partial \in PARTIALS
  /\ c2s = <<>> /\ s2c = <<>> /\ link = "up"
  /\ S = S0
  /\ \E kd \in KINDS : C = C0(kd) /\ IF kd = "honest" THEN script = <<>> ELSE script \in SCRIPTS
  /\ hpos = 0
  /\ H = H0(partial)
Init == InitWith(NB)

\* ------------------------------------------------------------------------------------------------ server
\* HashBlobWriter.write(u) while `incoming` is set; u is a payload unit or any other bytes (never the blob's)
WriterWrite(u) ==
  LET w == S.wr
      n == IF u.k = "d" THEN u.n ELSE IF "len" \in DOMAIN u THEN u.len ELSE 1     \* (recorded chunks carry their byte length)
      g == u.k = "d" /\ u.g /\ u.b = w.b /\ u.off = w.got
  IN
  IF ~w.set \/ ~w.open
  THEN \* buffer is None and finished is done: OSError -> transport.close()
       /\ S' = [S EXCEPT !.closed = TRUE] /\ UNCHANGED <<pend, H>>
  ELSE LET ng == w.got + n
           gd == w.good /\ g
       IN IF ng > w.need
          THEN /\ S' = [S EXCEPT !.wr = [w EXCEPT !.got = ng, !.good = FALSE, !.open = FALSE]]     \* InvalidDataError
               /\ H' = [H EXCEPT !.badx = TRUE] /\ UNCHANGED pend
          ELSE IF ng = w.need
          THEN LET ok == gd /\ w.b <= nb /\ w.need = blen[w.b] IN      \* the hash of a prefix / of other bytes never matches
               /\ S' = [S EXCEPT !.wr = [w EXCEPT !.got = ng, !.good = ok, !.open = FALSE]]
               /\ IF ok \/ ~VERIFY
                  THEN pend' = pend \cup {[b |-> w.b, good |-> ok]} /\ H' = [H EXCEPT !.badx = H.badx \/ ~ok]
                  ELSE pend' = pend /\ H' = [H EXCEPT !.badx = TRUE]                                \* InvalidBlobHashError
          ELSE /\ S' = [S EXCEPT !.wr = [w EXCEPT !.got = ng, !.good = gd]] /\ UNCHANGED <<pend, H>>

NewTask(u) == [u |-> IF u.k = "d" THEN J ELSE u, pc |-> "new", b |-> 0]
\* data_received(u)
SRecv(u) ==
  IF S.closed THEN UNCHANGED <<S, pend, H>>
  ELSE IF S.inc THEN WriterWrite(u)                                                         \* every byte is payload
  ELSE IF ~REASSEMBLE
       THEN /\ S' = IF IsReq(u) THEN [S EXCEPT !.tasks = Append(S.tasks, NewTask(u))] ELSE S     \* else: dropped silently
            /\ H' = [H EXCEPT !.dropped = H.dropped \/ IsFrag(u)]
            /\ UNCHANGED pend
       ELSE /\ S' = IF u.k = "h1" /\ S.buf = <<>> THEN [S EXCEPT !.buf = <<u.of>>]
                    ELSE IF u.k = "hm" /\ S.buf = <<u.of>> THEN S
                    ELSE IF u.k = "h2" /\ S.buf = <<u.of>> THEN [S EXCEPT !.buf = <<>>, !.tasks = Append(S.tasks, NewTask(u.of))]
                    ELSE IF IsReq(u) /\ S.buf = <<>> THEN [S EXCEPT !.tasks = Append(S.tasks, NewTask(u))]
                    ELSE [S EXCEPT !.closed = TRUE]
            /\ UNCHANGED <<pend, H>>

Queue(s, r) == [s EXCEPT !.outq = Append(s.outq, r)]
HasNew == \E i \in DOMAIN S.tasks : S.tasks[i].pc = "new"
FirstNew == CHOOSE i \in DOMAIN S.tasks : S.tasks[i].pc = "new" /\ \A j \in 1..(i - 1) : S.tasks[j].pc # "new"
Without(q, i) == SubSeq(q, 1, i - 1) \o SubSeq(q, i + 1, Len(q))
\* replacing self.writer while the old one is still open leaves that one registered on its blob for good
Orph == IF S.wr.set /\ S.wr.open THEN 1 ELSE 0

\* handle_request from its first line to its first await (or its end)
TaskStart ==
  /\ HasNew
  /\ LET i == FirstNew
         u == S.tasks[i].u
         rest == Without(S.tasks, i)
         closeIt == /\ S' = [S EXCEPT !.closed = TRUE, !.tasks = rest]
                    /\ H' = [H EXCEPT !.jh = H.jh \/ u.k = "J"]
     IN IF ~S.ver
        THEN IF u.k = "ver" THEN /\ S' = Queue([S EXCEPT !.ver = TRUE, !.tasks = rest], RVer) /\ UNCHANGED H
             ELSE closeIt
        ELSE IF ~S.sd
        THEN IF u.k # "sdo" THEN closeIt
             ELSE IF 0 \notin store
                  THEN /\ S' = Queue([S EXCEPT !.sd = TRUE, !.inc = TRUE, !.wr = NewW(0, u),
                                               !.tasks = [S.tasks EXCEPT ![i] = [u |-> u, pc |-> "waitv", b |-> 0]]],
                                     RSsd(TRUE, <<>>))
                       /\ UNCHANGED H
                  ELSE /\ S' = [S EXCEPT !.sd = TRUE, !.tasks = [S.tasks EXCEPT ![i] = [u |-> u, pc |-> "load1", b |-> 0]]]
                       /\ UNCHANGED H
        ELSE IF S.desc
        THEN IF u.k # "bo" THEN closeIt
             ELSE IF u.b = FOREIGN \/ u.b \in store
                  THEN /\ S' = Queue([S EXCEPT !.tasks = rest], RSb(FALSE)) /\ UNCHANGED H
                  ELSE IF S.wr.set /\ S.wr.open /\ S.wr.b = u.b
                  THEN /\ S' = [S EXCEPT !.tasks = rest] /\ UNCHANGED H       \* "attempted to download blob twice": the task dies
                  ELSE /\ S' = Queue([S EXCEPT !.inc = TRUE, !.wr = NewW(u.b, u),
                                               !.tasks = [S.tasks EXCEPT ![i] = [u |-> u, pc |-> "waitv", b |-> u.b]]],
                                     RSb(TRUE))
                       /\ H' = [H EXCEPT !.orphans = H.orphans + Orph]
        ELSE closeIt                     \* descriptor blob named but no descriptor loaded
  /\ UNCHANGED <<stream, store, badstore, pend, partial, c2s, s2c, link, C, hpos>>

\* the deferred transport.write of send_response; after close() nothing is written any more
Flush ==
  /\ S.outq # <<>>
  /\ S' = [S EXCEPT !.outq = Tail(S.outq)]
  /\ s2c' = IF S.closed \/ link = "down" THEN s2c ELSE Append(s2c, Head(S.outq))
  /\ UNCHANGED <<stream, store, badstore, pend, partial, c2s, link, C, hpos, H>>

\* the executor job of save_verified_blob finishes: file on disk, verified set, blob_completed
FileWritten ==
  /\ \E p \in pend :
       /\ pend' = pend \ {p}
       /\ store' = store \cup {p.b}
       /\ badstore' = IF p.good \/ p.b \in store THEN badstore ELSE badstore \cup {p.b}
  /\ UNCHANGED <<stream, partial, c2s, s2c, link, S, C, hpos, H>>

ClosedW(w) == IF CLOSEWRITER THEN NoW ELSE w
\* `finally` / the lines after the try: incoming cleared, writer closed and forgotten
Cleanup(s, rest) == [s EXCEPT !.inc = FALSE, !.wr = ClosedW(s.wr), !.tasks = rest]

\* wait_for(blob.verified.wait(), 30) returns
Verified ==
  /\ \E i \in DOMAIN S.tasks :
       /\ S.tasks[i].pc = "waitv" /\ S.tasks[i].b \in store
       /\ IF S.tasks[i].b = 0
          THEN S' = [S EXCEPT !.tasks = [S.tasks EXCEPT ![i] = [@ EXCEPT !.pc = "load2"]]]
          ELSE S' = Queue(Cleanup(S, Without(S.tasks, i)), RRb(TRUE))
  /\ UNCHANGED <<stream, store, badstore, pend, partial, c2s, s2c, link, C, hpos, H>>

\* descriptor read back from the blob the server already held: answer with the list of blobs it lacks
Load1 ==
  /\ \E i \in DOMAIN S.tasks :
       /\ S.tasks[i].pc = "load1"
       /\ LET needs == IF partial /\ Missing # <<>> THEN First(Missing, PARTIALN) ELSE Missing IN
          /\ S' = Queue([Cleanup(S, Without(S.tasks, i)) EXCEPT !.desc = TRUE], RSsd(FALSE, needs))
          /\ partial' = IF Missing # <<>> THEN FALSE ELSE partial
  /\ UNCHANGED <<stream, store, badstore, pend, c2s, s2c, link, C, hpos, H>>
\* descriptor read back from the blob just received
Load2 ==
  /\ \E i \in DOMAIN S.tasks :
       /\ S.tasks[i].pc = "load2"
       /\ S' = Queue([Cleanup(S, Without(S.tasks, i)) EXCEPT !.desc = TRUE], RRsd(TRUE))
  /\ UNCHANGED <<stream, store, badstore, pend, partial, c2s, s2c, link, C, hpos, H>>

ClientWaiting == C.pc \in {"w_ver", "w_ssd", "w_rsd", "w_sb", "w_rb"}
\* something other than a timer (or a disconnect) can happen
SrvBusy == \/ pend # {} \/ HasNew \/ S.outq # <<>>
           \/ \E i \in DOMAIN S.tasks : S.tasks[i].pc \in {"load1", "load2"} \/ (S.tasks[i].pc = "waitv" /\ S.tasks[i].b \in store)
Busy == \/ c2s # <<>> \/ s2c # <<>> \/ SrvBusy
        \/ C.pc = "start" \/ (C.pc = "hostile" /\ hpos < Len(script) /\ ~C.closed)
        \/ (C.closed /\ ~S.lost) \/ (S.closed /\ ~C.lost)
TimersMayFire == SLOW \/ ~Busy

\* the 30 s wait_for expires
SrvTimeout ==
  /\ TimersMayFire
  /\ \E i \in DOMAIN S.tasks :
       /\ S.tasks[i].pc = "waitv" /\ S.tasks[i].b \notin store
       /\ IF S.tasks[i].b = 0
          THEN S' = [Queue(Cleanup(S, Without(S.tasks, i)), RRsd(FALSE)) EXCEPT !.closed = TRUE]
          ELSE S' = Queue(Cleanup(S, Without(S.tasks, i)), RRb(FALSE))
  /\ H' = [H EXCEPT !.to = TRUE, !.failans = TRUE]
  /\ UNCHANGED <<stream, store, badstore, pend, partial, c2s, s2c, link, C, hpos>>

\* ------------------------------------------------------------------------------------------------ client
SendC(c, q) == IF c.closed \/ link = "down" THEN c2s ELSE c2s \o q
Payload(b) == <<D(b, 0, blen[b], TRUE)>>            \* sendfile: the whole blob; the channel cuts it

\* the loop of upload_to_reflector: offer the next blob of the plan or finish
NextBlob(c, h, q) ==
  IF c.plan = <<>>
  THEN /\ C' = [c EXCEPT !.pc = "done", !.closed = TRUE] /\ H' = h /\ c2s' = q
  ELSE /\ C' = [c EXCEPT !.pc = "w_sb", !.cur = Head(c.plan), !.plan = Tail(c.plan)]
       /\ H' = [h EXCEPT !.offered = h.offered \cup {Head(c.plan)}]
       /\ c2s' = IF c.closed \/ link = "down" THEN q ELSE q \o <<BO(Head(c.plan), "ok")>>
Fail == /\ C' = [C EXCEPT !.pc = "failed", !.closed = TRUE] /\ UNCHANGED <<H, c2s>>
AllData == SeqOf(1, Data)

CliStart == /\ C.pc = "start" /\ C' = [C EXCEPT !.pc = "w_ver"] /\ c2s' = SendC(C, <<Ver>>)
            /\ UNCHANGED <<stream, store, badstore, pend, partial, s2c, link, S, hpos, H>>

\* a complete response r reaches the waiting coroutine
CliResponse(r) ==
  CASE C.pc = "w_ver" -> IF r.k = "ver" THEN /\ C' = [C EXCEPT !.pc = "w_ssd"] /\ c2s' = SendC(C, <<SdO("ok")>>) /\ UNCHANGED H
                         ELSE Fail
    [] C.pc = "w_ssd" -> IF r.k # "ssd" THEN Fail
                         ELSE IF r.v
                         THEN /\ C' = [C EXCEPT !.pc = "w_rsd", !.needs = r.needs]
                              /\ c2s' = SendC(C, Payload(0))
                              /\ H' = [H EXCEPT !.datafor = H.datafor \cup {0}, !.asked = H.asked \cup {0}]
                         ELSE IF r.needs = <<>>
                         THEN /\ C' = [C EXCEPT !.pc = "done", !.closed = TRUE, !.given = TRUE]      \* reflector already has the stream
                              /\ H' = [H EXCEPT !.fully = TRUE] /\ UNCHANGED c2s
                         ELSE NextBlob([C EXCEPT !.plan = r.needs, !.needs = r.needs, !.given = TRUE], H, c2s)
    [] C.pc = "w_rsd" -> IF r.k = "rsd" /\ r.v
                         THEN NextBlob([C EXCEPT !.plan = IF C.needs = <<>> THEN AllData ELSE C.needs],
                                       [H EXCEPT !.reflected = H.reflected \cup {0}, !.sent = Append(H.sent, 0)], c2s)
                         ELSE IF C.needs = <<>>
                         THEN /\ C' = [C EXCEPT !.pc = "done", !.closed = TRUE]                      \* sic: counted as "already has the stream"
                              /\ H' = [H EXCEPT !.fully = TRUE] /\ UNCHANGED c2s
                         ELSE NextBlob([C EXCEPT !.plan = C.needs], H, c2s)
    [] C.pc = "w_sb" -> IF r.k # "sb" THEN Fail
                        ELSE IF r.v \/ ~OBEYNEEDS
                        THEN /\ C' = [C EXCEPT !.pc = "w_rb"] /\ c2s' = SendC(C, Payload(C.cur))
                             /\ H' = [H EXCEPT !.datafor = H.datafor \cup {C.cur}, !.asked = IF r.v THEN H.asked \cup {C.cur} ELSE H.asked]
                        ELSE NextBlob(C, [H EXCEPT !.sent = Append(H.sent, C.cur)], c2s)
    [] C.pc = "w_rb" -> NextBlob(C, [H EXCEPT !.sent = Append(H.sent, C.cur),
                                               !.reflected = IF r.k = "rb" /\ r.v THEN H.reflected \cup {C.cur} ELSE H.reflected], c2s)
    [] OTHER -> UNCHANGED <<C, H, c2s>>

\* StreamReflectorClient.data_received: buffer until the bytes decode
CRecv(u) ==
  IF C.closed \/ C.kind = "hostile" THEN UNCHANGED <<C, H, c2s>>
  ELSE IF u.k = "h1" THEN C' = [C EXCEPT !.buf = <<u.of>>] /\ UNCHANGED <<H, c2s>>
  ELSE IF u.k = "hm" THEN UNCHANGED <<C, H, c2s>>
  ELSE IF u.k = "h2" THEN (IF C.buf = <<u.of>> /\ ClientWaiting THEN CliResponse(u.of) ELSE UNCHANGED <<C, H, c2s>>)
  ELSE IF ClientWaiting THEN CliResponse(u) ELSE UNCHANGED <<C, H, c2s>>

\* wait_for(..., 180) on a request, wait_for(..., 30) on the acknowledgement of a transfer
CliTimeout ==
  /\ TimersMayFire /\ ClientWaiting
  /\ C' = [C EXCEPT !.pc = "failed", !.closed = TRUE]
  /\ H' = [H EXCEPT !.to = TRUE]
  /\ UNCHANGED <<stream, store, badstore, pend, partial, c2s, s2c, link, S, hpos>>

\* the user stops the upload (the task is cancelled): the client closes
CliCancel ==
  /\ CUT /\ ClientWaiting
  /\ C' = [C EXCEPT !.pc = "failed", !.closed = TRUE]
  /\ H' = [H EXCEPT !.cut = TRUE]
  /\ UNCHANGED <<stream, store, badstore, pend, partial, c2s, s2c, link, S, hpos>>

HostileSend ==
  /\ C.pc = "hostile" /\ hpos < Len(script) /\ ~C.closed /\ link = "up"
  /\ hpos' = hpos + 1 /\ c2s' = Append(c2s, script[hpos + 1])
  /\ UNCHANGED <<stream, store, badstore, pend, partial, s2c, link, S, C, H>>

\* ------------------------------------------------------------------------------------------------ the channels
\* (a request task always starts before the next read: its first step is queued by create_task in the iteration of the
\* read that created it, ahead of the next read event)
DeliverC2S ==
  /\ c2s # <<>> /\ ~HasNew
  /\ SRecv(Head(c2s)) /\ c2s' = Tail(c2s)
  /\ UNCHANGED <<stream, store, badstore, partial, s2c, link, C, hpos>>
\* two payload segments arrive in one read / one segment arrives in two (repeated: any re-chunking)
GlueC2S ==
  /\ Len(c2s) >= 2 /\ c2s[1].k = "d" /\ c2s[2].k = "d"
  /\ c2s' = <<D(c2s[1].b, c2s[1].off, c2s[1].n + c2s[2].n,
                c2s[1].g /\ c2s[2].g /\ c2s[1].b = c2s[2].b /\ c2s[2].off = c2s[1].off + c2s[1].n)>> \o SubSeq(c2s, 3, Len(c2s))
  /\ UNCHANGED <<stream, store, badstore, pend, partial, s2c, link, S, C, hpos, H>>
CutC2S ==
  /\ c2s # <<>> /\ c2s[1].k = "d" /\ c2s[1].n >= 2
  /\ \E m \in 1..(c2s[1].n - 1) :
       c2s' = <<D(c2s[1].b, c2s[1].off, m, c2s[1].g), D(c2s[1].b, c2s[1].off + m, c2s[1].n - m, c2s[1].g)>> \o Tail(c2s)
  /\ UNCHANGED <<stream, store, badstore, pend, partial, s2c, link, S, C, hpos, H>>
SplitC2S ==
  /\ REQSPLIT /\ c2s # <<>> /\ c2s[1].k \in {"ver", "sdo", "bo", "J"}
  /\ c2s' = <<H1(Head(c2s)), H2(Head(c2s))>> \o Tail(c2s)
  /\ UNCHANGED <<stream, store, badstore, pend, partial, s2c, link, S, C, hpos, H>>
DeliverS2C ==
  /\ s2c # <<>>
  /\ CRecv(Head(s2c)) /\ s2c' = Tail(s2c)
  /\ UNCHANGED <<stream, store, badstore, pend, partial, link, S, hpos>>
SplitS2C ==
  /\ RESPSPLIT /\ s2c # <<>> /\ ~IsFrag(Head(s2c))
  /\ s2c' = <<H1(Head(s2c)), H2(Head(s2c))>> \o Tail(s2c)
  /\ UNCHANGED <<stream, store, badstore, pend, partial, c2s, link, S, C, hpos, H>>

\* the client's close reaches the server after the bytes in flight: connection_lost (cancels wait_for_stop only)
SrvLost ==
  /\ C.closed /\ c2s = <<>> /\ ~S.lost
  /\ S' = [S EXCEPT !.lost = TRUE, !.closed = TRUE]
  /\ UNCHANGED <<stream, store, badstore, pend, partial, c2s, s2c, link, C, hpos, H>>
\* connection_lost on the client cancels pending_request (the wait for the answer to a request); the wait for the
\* acknowledgement of a transfer is not cancelled and runs into its 30 s timeout
CliLostState(c) == [c EXCEPT !.lost = TRUE, !.closed = TRUE,
                             !.pc = IF c.pc \in {"w_ver", "w_ssd", "w_sb", "start"} THEN "failed" ELSE c.pc]
CliLost ==
  /\ S.closed /\ s2c = <<>> /\ S.outq = <<>> /\ ~C.lost
  /\ C' = CliLostState(C)
  /\ UNCHANGED <<stream, store, badstore, pend, partial, c2s, s2c, link, S, hpos, H>>
Cut ==
  /\ CUT /\ link = "up"
  /\ link' = "down" /\ c2s' = <<>> /\ s2c' = <<>>
  /\ S' = [S EXCEPT !.lost = TRUE, !.closed = TRUE]
  /\ C' = CliLostState(C)
  /\ H' = [H EXCEPT !.cut = TRUE]
  /\ UNCHANGED <<stream, store, badstore, pend, partial, hpos>>

Internal == TaskStart \/ Flush \/ FileWritten \/ Verified \/ Load1 \/ Load2
Next == Internal \/ SrvTimeout \/ CliStart \/ CliTimeout \/ CliCancel \/ HostileSend
        \/ DeliverC2S \/ GlueC2S \/ CutC2S \/ SplitC2S \/ DeliverS2C \/ SplitS2C \/ SrvLost \/ CliLost \/ Cut
Progress == Internal \/ SrvTimeout \/ CliStart \/ CliTimeout \/ HostileSend \/ DeliverC2S \/ DeliverS2C \/ SrvLost \/ CliLost
Spec == Init /\ [][Next]_vars /\ WF_vars(Progress)

\* ------------------------------------------------------------------------------------------------ the statement
Honest == C.kind = "honest"
Settled == ~Busy /\ S.tasks = <<>> /\ ~ClientWaiting
\* (1) after a complete honest session the server holds, verified and byte-identical, the descriptor and every blob the
\*     client counts as sent or reflected; without partial_needs and timeouts it holds the whole stream
ServerEndsComplete ==
  (Honest /\ C.pc = "done" /\ ~H.cut /\ ~H.to) =>
      /\ 0 \in store /\ H.reflected \subseteq store /\ ToSet(H.sent) \subseteq store /\ badstore = {}
      /\ (0 \notin held0 => store = Blobs)
      /\ ((0 \in held0 /\ ~H.fully) => Len(H.sent) >= 1)
WholeStreamUnlessPartial ==
  (Honest /\ C.pc = "done" /\ ~H.cut /\ ~H.to /\ ~H.p0) => store = Blobs
\* "fully reflected" is claimed only when the server really has everything
FullyMeansAll == (Honest /\ H.fully /\ ~H.to /\ ~H.cut) => store = Blobs
\* (2) the client puts payload on the wire only for blobs the server asked for, and offers only listed blobs
ClientSendsOnlyNeeded == /\ H.datafor \subseteq H.asked
                         /\ (C.given => H.offered \subseteq ToSet(C.needs))
\* (3) nothing whose bytes or length differ from the offer is ever verified; a failed transfer is answered with a
\*     failure or the connection is closed
BadBlobNeverVerified == badstore = {} /\ \A p \in pend : p.good
BadAnswered == (Settled /\ H.badx) => (H.failans \/ S.closed)
\* (4) a JSON object without the key the state requires closes the connection as soon as its task runs
GarbageCloses == H.jh => S.closed
\* (5) after the session, however it ended, the server has no incoming writer, `incoming` is clear, and everything it
\*     holds is verified
NoPartialLeftBehind == Settled => (~S.inc /\ ~(S.wr.set /\ S.wr.open) /\ pend = {})
\* self.writer is never replaced while it is still open (that writer would stay registered on its blob for good)
NoOrphanWriter == H.orphans = 0
WriterWhenIncoming == S.inc => S.wr.set
StoreOnlyGrows == held0 \subseteq store
\* liveness: an honest session that is not cut ends, and ends complete
HonestEnds == Honest => <>(C.pc \in {"done", "failed"})
HonestCompletes == Honest => <>(C.pc = "done" \/ H.cut)
\* ... the same for the server as found: unless a fragment of a request was dropped (D1)
HonestCompletesUnlessDropped == Honest => <>(C.pc = "done" \/ H.cut \/ H.dropped)

\* what an honest undisturbed session must end with, as a function of what the server held (used by Leg B)
ExpNeeds(h, p) == LET m == SeqOf(1, Data \ h) IN IF p /\ m # <<>> THEN First(m, PARTIALN) ELSE m
ExpFinal(h, p) == IF 0 \in h THEN h \cup ToSet(ExpNeeds(h, p)) ELSE Blobs
ExpSent(h, p) == IF 0 \in h THEN ExpNeeds(h, p) ELSE <<0>> \o AllData
ExpDataFor(h, p) == IF 0 \in h THEN ToSet(ExpNeeds(h, p)) ELSE {0} \cup (Data \ h)
ExpFully(h) == 0 \in h /\ Data \subseteq h
ModelMatchesExpected ==
  (Honest /\ C.pc = "done" /\ ~H.cut /\ ~H.to) =>
     /\ H.datafor = ExpDataFor(held0, H.p0)
     /\ H.sent = ExpSent(held0, H.p0)
     /\ store = ExpFinal(held0, H.p0)
     /\ H.fully = ExpFully(held0)

\* reachability witnesses (each must be VIOLATED)
W_HonestDone == ~(Honest /\ C.pc = "done" /\ ~H.cut /\ ~H.to /\ Len(H.sent) = nb + 1)
W_Fully == ~(Honest /\ H.fully)
W_BadSettled == ~(Settled /\ H.badx /\ H.failans)
W_Garbage == ~H.jh
W_CutSettled == ~(Settled /\ H.cut /\ H.to)
W_Dropped == ~H.dropped
=============================================================================
