------------------------------- MODULE LruCache -------------------------------
(* G09 -- lbry.utils.LRUCache and LRUCacheWithMetrics: an OrderedDict used as a bounded map ordered by last use.

   The cache is the pair (ord, val): ord = the keys from least to most recently used (the iteration order of the
   OrderedDict), val = the stored values.  Every public method is one action, written the way the code works on the
   OrderedDict (pop + re-insert at the end, popitem(last=False)); the clauses are stated on ghost data that does not
   look at ord (a use clock per key, call counts), so that they are not the definition read twice.

       get(k[, default])   hit: pop and re-insert (most recent), hits.inc()         miss: misses.inc(), return default
       c[k]                the same as get(k): a MISSING key gives None, no KeyError                          (D1)
       set(k, v), c[k]=v   present: re-insert at the end.  new: if len >= capacity evict the first key, insert
                           capacity <= 0: popitem on the empty dict raises KeyError, nothing is stored        (D2)
       k in c, len(c)      no effect on the order, not counted
       pop(k)              LRUCache: pop(k, default=None) never raises; LRUCacheWithMetrics: KeyError if absent  (D3)
       del c[k]            KeyError if absent (both classes)
       clear()             empties the cache; the counters keep their values
       items()             LRUCache only: (key, value) pairs from least to most recently used
   KIND: "plain" = LRUCache, "metrics" = LRUCacheWithMetrics(capacity, metric_name), "nometrics" =
   LRUCacheWithMetrics(capacity): hits / misses are None, nothing is counted.  A metric name that is already
   registered silently gives the third kind (D4: the prometheus ValueError is swallowed).

   Emission (Leg B): every call history is kept in `hist` with the expected return value and the expected cache after
   each call.  Two runs: all histories up to a small depth (no VIEW), and the complete state graph with VIEW = the cache
   (every distinct cache content reached once, by a shortest history) where an ACTION_CONSTRAINT prints every
   transition: the driver replays the history on a fresh real cache and probes the recency order through set / in. *)
EXTENDS Naturals, Sequences, FiniteSets, TLC, TLCExt, Json

CONSTANTS Keys, Vals,
          Cap,          \* capacity (0 allowed: D2)
          MAXLEN,       \* calls per history
          KEEPHIST,     \* TRUE: the call history is part of the state (emission); FALSE: only its length (g.clock) is
          KIND,         \* "plain" | "metrics" | "nometrics"
          BASIC,        \* TRUE: only get / set / pop / clear (the alphabet of the all-histories emission)
          REFRESH_GET,  \* TRUE as found; FALSE = negative control: a hit does not make the key most recent
          EVICT_LRU,    \* TRUE as found; FALSE = negative control: the most recently used key is evicted
          STRICT_CAP    \* TRUE as found; FALSE = negative control: evicts only when len > capacity

VARIABLES c,      \* [ord, val, hits, misses]
          hist,   \* <<[op, k, v, ret, ord, vals, hits, misses]>>
          g       \* ghost: [clock, used, nhit, nmiss, bad]
lvars == <<c, hist, g>>

Empty == [ord |-> <<>>, val |-> <<>>, hits |-> 0, misses |-> 0]
Has(C, k) == k \in DOMAIN C.val
Drop(s, k) == SelectSeq(s, LAMBDA x : x # k)
Without(C, k) == [C EXCEPT !.ord = Drop(C.ord, k), !.val = [x \in DOMAIN C.val \ {k} |-> C.val[x]]]
\* OrderedDict: pop(k) then d[k] = v puts k at the end
AtEnd(C, k, v) == [C EXCEPT !.ord = Append(Drop(C.ord, k), k),
                            !.val = [x \in DOMAIN C.val \cup {k} |-> IF x = k THEN v ELSE C.val[x]]]
Tracks == KIND = "metrics"

\* ---- the methods: each returns [c |-> cache after, ret |-> returned token]
DoGet(C, k, dflt) ==
    IF Has(C, k)
    THEN [c |-> [(IF REFRESH_GET THEN AtEnd(C, k, C.val[k]) ELSE C) EXCEPT !.hits = IF Tracks THEN @ + 1 ELSE @],
          ret |-> C.val[k]]
    ELSE [c |-> [C EXCEPT !.misses = IF Tracks THEN @ + 1 ELSE @], ret |-> dflt]
DoSet(C, k, v) ==
    IF Has(C, k) THEN [c |-> AtEnd(C, k, v), ret |-> "None"]
    ELSE IF (IF STRICT_CAP THEN Len(C.ord) >= Cap ELSE Len(C.ord) > Cap)
         THEN IF C.ord = <<>> THEN [c |-> C, ret |-> "KeyError"]                      \* D2
              ELSE [c |-> AtEnd(Without(C, IF EVICT_LRU THEN Head(C.ord) ELSE C.ord[Len(C.ord)]), k, v), ret |-> "None"]
         ELSE [c |-> AtEnd(C, k, v), ret |-> "None"]
DoContains(C, k) == [c |-> C, ret |-> IF Has(C, k) THEN "T" ELSE "F"]
DoLen(C) == [c |-> C, ret |-> ToString(Len(C.ord))]
DoPop(C, k) == IF Has(C, k) THEN [c |-> Without(C, k), ret |-> C.val[k]]
               ELSE [c |-> C, ret |-> IF KIND = "plain" THEN "None" ELSE "KeyError"]       \* D3
DoPopDefault(C, k) == IF Has(C, k) THEN [c |-> Without(C, k), ret |-> C.val[k]] ELSE [c |-> C, ret |-> "D"]
DoDel(C, k) == IF Has(C, k) THEN [c |-> Without(C, k), ret |-> "None"] ELSE [c |-> C, ret |-> "KeyError"]
DoClear(C) == [c |-> [C EXCEPT !.ord = <<>>, !.val = <<>>], ret |-> "None"]
DoItems(C) == [c |-> C, ret |-> "items"]       \* the pairs are (ord, vals) of the history entry

Ops == IF BASIC THEN {"get", "set", "pop", "clear"}
       ELSE {"get", "getd", "getitem", "set", "setitem", "in", "len", "pop", "del", "clear"}
            \cup (IF KIND = "plain" THEN {"popd", "items"} ELSE {})
KeyOps == {"get", "getd", "getitem", "set", "setitem", "in", "pop", "popd", "del"}
Apply(C, op, k, v) ==
    CASE op = "get" -> DoGet(C, k, "None")
      [] op = "getd" -> DoGet(C, k, "D")
      [] op = "getitem" -> DoGet(C, k, "None")                                              \* D1
      [] op \in {"set", "setitem"} -> DoSet(C, k, v)
      [] op = "in" -> DoContains(C, k)
      [] op = "len" -> DoLen(C)
      [] op = "pop" -> DoPop(C, k)
      [] op = "popd" -> DoPopDefault(C, k)
      [] op = "del" -> DoDel(C, k)
      [] op = "clear" -> DoClear(C)
      [] op = "items" -> DoItems(C)

\* ---- what a plain dict holding exactly the cache's content answers (no notion of order)
DictRet(val, op, k) ==
    CASE op \in {"get", "getitem"} -> IF k \in DOMAIN val THEN val[k] ELSE "None"
      [] op = "getd" -> IF k \in DOMAIN val THEN val[k] ELSE "D"
      [] op = "in" -> IF k \in DOMAIN val THEN "T" ELSE "F"
      [] op = "len" -> ToString(Cardinality(DOMAIN val))
      [] op = "pop" -> IF k \in DOMAIN val THEN val[k] ELSE IF KIND = "plain" THEN "None" ELSE "KeyError"
      [] op = "popd" -> IF k \in DOMAIN val THEN val[k] ELSE "D"
      [] op = "del" -> IF k \in DOMAIN val THEN "None" ELSE "KeyError"
      [] OTHER -> "None"

G0 == [clock |-> 0, used |-> [k \in Keys |-> 0], nhit |-> 0, nmiss |-> 0, nev |-> 0, nerr |-> 0, bad |-> {}]
Oldest(val, used) == CHOOSE k \in DOMAIN val : \A x \in DOMAIN val : used[k] <= used[x]

Call(op, k, v) ==
    /\ g.clock < MAXLEN
    /\ \E r \in {Apply(c, op, k, v)} :        \* (bound once: TLC re-evaluates LET definitions at every use)
       LET C2 == r.c
           isget == op \in {"get", "getd", "getitem"}
           isset == op \in {"set", "setitem"}
           hit == isget /\ Has(c, k)
           stored == isset /\ r.ret # "KeyError"
           named == IF op \in {"pop", "popd", "del"} THEN {k} ELSE IF op = "clear" THEN DOMAIN c.val ELSE {}
       IN \E lost \in {(DOMAIN c.val \ DOMAIN C2.val) \ named} :     \* keys that left without being named: evicted
          LET used2 == IF hit \/ stored THEN [g.used EXCEPT ![k] = g.clock + 1] ELSE g.used
              bad == {b \in {"Evicts", "DictReturn", "DictContent", "Refresh", "SetStores"} :
                  CASE b = "Evicts" ->        \* exactly the least recently used key leaves, and only to make room
                         ~(IF stored /\ ~Has(c, k) /\ Cardinality(DOMAIN c.val) >= Cap
                           THEN lost = {Oldest(c.val, g.used)} ELSE lost = {})
                    [] b = "DictReturn" -> ~isset /\ op # "items" /\ r.ret # DictRet(c.val, op, k)
                    [] b = "DictContent" ->   \* apart from the evicted key the content changes like a dict's
                         \/ (stored /\ ~(k \in DOMAIN C2.val /\ C2.val[k] = v))
                         \/ (named # {} /\ DOMAIN C2.val \cap named # {})
                         \/ \E x \in DOMAIN C2.val : x \notin DOMAIN c.val /\ ~(stored /\ x = k)
                         \/ \E x \in DOMAIN C2.val \cap DOMAIN c.val : ~(stored /\ x = k) /\ C2.val[x] # c.val[x]
                    [] b = "Refresh" ->       \* a hit / a store makes the key the most recent one
                         (hit \/ stored) /\ ~(C2.ord # <<>> /\ C2.ord[Len(C2.ord)] = k)
                    [] b = "SetStores" ->     \* set returns None and stores -- unless the capacity is not positive (D2)
                         isset /\ r.ret # (IF Cap > 0 THEN "None" ELSE "KeyError")}
          IN /\ c' = C2
             /\ hist' = IF ~KEEPHIST THEN hist ELSE
                        Append(hist, [op |-> op, k |-> k, v |-> v, ret |-> r.ret, ord |-> C2.ord,
                                      vals |-> [i \in 1..Len(C2.ord) |-> C2.val[C2.ord[i]]],
                                      hits |-> C2.hits, misses |-> C2.misses])
             /\ g' = [clock |-> g.clock + 1, used |-> used2,
                      nhit |-> g.nhit + (IF hit THEN 1 ELSE 0), nmiss |-> g.nmiss + (IF isget /\ ~hit THEN 1 ELSE 0),
                      nev |-> IF lost # {} THEN 1 ELSE g.nev, nerr |-> IF r.ret = "KeyError" THEN 1 ELSE g.nerr,   \* (flags)
                      bad |-> g.bad \cup bad]

Init == c = Empty /\ hist = <<>> /\ g = G0
Next == \E op \in Ops :
           IF op \in {"set", "setitem"} THEN \E k \in Keys, v \in Vals : Call(op, k, v)
           ELSE IF op \in KeyOps THEN \E k \in Keys : Call(op, k, "")
           ELSE Call(op, "", "")
Spec == Init /\ [][Next]_lvars

\* ---- clauses
TypeOK == /\ \A i \in 1..Len(c.ord) : c.ord[i] \in Keys
          /\ DOMAIN c.val = {c.ord[i] : i \in 1..Len(c.ord)} /\ Cardinality(DOMAIN c.val) = Len(c.ord)   \* no key twice
          /\ \A k \in DOMAIN c.val : c.val[k] \in Vals
Bounded == Len(c.ord) <= (IF Cap > 0 THEN Cap ELSE 0)
\* the iteration order is the order of last use (ghost clock), hence what is evicted next is the least recently used
RecencyOrder == \A i, j \in 1..Len(c.ord) : i < j => g.used[c.ord[i]] < g.used[c.ord[j]]
EvictsLeastRecentlyUsed == "Evicts" \notin g.bad
AgreesWithDict == "DictReturn" \notin g.bad /\ "DictContent" \notin g.bad
UseRefreshes == "Refresh" \notin g.bad
MetricsExact == IF Tracks THEN c.hits = g.nhit /\ c.misses = g.nmiss ELSE c.hits = 0 /\ c.misses = 0
SetStores == "SetStores" \notin g.bad
ZeroCapacity == Cap <= 0 => c.ord = <<>>          \* capacity 0 or less stores nothing (every set raises, D2)

\* ---- witnesses (INVARIANT W must be violated)
W_Evicted   == g.nev = 0
W_Full      == ~(Len(c.ord) = Cap /\ Cap > 0)
W_Miss      == g.nmiss = 0
W_Hit       == g.nhit = 0
W_KeyError  == g.nerr = 0
W_HitThenEvictOther == ~(g.nhit > 0 /\ g.nev > 0 /\ Len(c.ord) >= 2)

\* all witnesses in one run (workers = 1): CONSTRAINT Marks, POSTCONDITION ReportMarks
LWNames == <<"Evicted", "Full", "Miss", "Hit", "HitThenEvictOther">>
Mk(i, w) == w \/ TLCSet(i, TRUE)
Marks == Mk(1, W_Evicted) /\ Mk(2, W_Full) /\ Mk(3, W_Miss) /\ Mk(4, W_Hit) /\ Mk(5, W_HitThenEvictOther)
ReportMarks == TLCGet("stats").diameter >= 0 /\
               \A i \in 1..Len(LWNames) : PrintT(<<"WITNESS", LWNames[i], TLCGetOrDefault(i, FALSE)>>)

\* ---- emission
View == c
EmitAll == PrintT(<<"CASE", ToJson(hist)>>)             \* CONSTRAINT: one line per history (no VIEW)
EmitStep == PrintT(<<"CASE", ToJson(hist')>>)           \* ACTION_CONSTRAINT: one line per transition of the state graph
Leaf == Len(hist) = MAXLEN => EmitAll                    \* CONSTRAINT: only the complete histories (prefixes are replayed anyway)
=============================================================================
