---------------------------- MODULE HeadersTrace ----------------------------
(* Trace validation for C07: observations recorded after every action of a history executed on a REAL
   lbry.wallet.header.Headers (real 112-byte headers mined by the driver, real header file).  The property is
   evaluated by TLC on what the real object shows: len(headers), the raw header at every height, the return value of
   connect(), known_missing_checkpointed_chunks, and the bytes of the header file.

   The driver names every distinct 112-byte value by an integer (the header of its canonical chain at height h is
   h + 1, anything else -- other branches, flawed, damaged, zero, junk headers -- gets a number of its own) and judges
   every header where it stands with ITS OWN implementation of the consensus rules (previous-hash link / genesis hash,
   bits demanded by the LBRY retarget rule from the two headers below, proof of work against the target of those bits).
   An observation is run-length compressed without loss:
     [len, base, tail, bad]   heights 0..base-1 hold the canonical headers (id h + 1), tail names heights base..len-1,
                              bad lists the heights whose header fails a rule where it stands
   TRACE_FILE: JSON array of traces [cks, ev]; cks = starts of the checkpointed chunks (chunk length 1000, the
   checkpoint of chunk c is the hash of the canonical headers c..c+999); events
     Open    [fb (the file just before, as an observation), obs, missing]
     Connect [start, bn, bcanon, brest (the batch: bn headers, the first bcanon of them the canonical headers of their heights,
              brest the others), fi (first header of the batch that fails a rule where it would stand, 0: none), ret, obs]
     Close   [fobs (the file just after, as an observation)]
     Fetch   [c, hashok (the offered chunk hashes to the checkpoint of c), obs, missing]
     Cut, Damage: informational (the next Open carries the file) *)
EXTENDS Naturals, Sequences, FiniteSets, TLC, Json, IOUtils, TLCExt
VARIABLES tid, l, cur, prv, lastEnd, stored, isopen, fresh, loaded, miss, pmiss
tvars == <<tid, l, cur, prv, lastEnd, stored, isopen, fresh, loaded, miss, pmiss>>
TraceLog == JsonDeserialize(IOEnv.TRACE_FILE)
T == TraceLog[tid]
CK == 1000
ToSet(q) == {q[i] : i \in DOMAIN q}
Min(a, b) == IF a < b THEN a ELSE b
Max(a, b) == IF a > b THEN a ELSE b
Empty == [len |-> 0, base |-> 0, tail |-> <<>>, bad |-> <<>>]
IdAt(o, h) == IF h < o.base THEN h + 1 ELSE o.tail[h - o.base + 1]
Same(o1, o2, h) == IdAt(o1, h) = IdAt(o2, h)
\* heights from..to-1 agree (heights below both run lengths are the canonical headers on both sides)
Agree(o1, o2, from, to) == \A h \in Max(from, Min(o1.base, o2.base))..(to - 1) : Same(o1, o2, h)
\* what open() kept of the file: repair only ever truncates, so it is the longest common prefix of the file and what is held
\* (anything beyond it was appended by open() as placeholders)
Kept(o, f) == LET m == Min(o.len, f.len)
                  D == {h \in Min(Min(o.base, f.base), m)..(m - 1) : ~Same(o, f, h)}
              IN IF D = {} THEN m ELSE CHOOSE x \in D : \A y \in D : x <= y
E == T.ev[l - 1]                 \* the event that led to the current state (l > 1)
BatchAt(e, i) == IF i <= e.bcanon THEN e.start + i ELSE e.brest[i - e.bcanon]

TInit == /\ tid \in 1..Len(TraceLog) /\ l = 1 /\ cur = Empty /\ prv = Empty /\ lastEnd = 0 /\ stored = Empty
         /\ isopen = FALSE /\ fresh = FALSE /\ loaded = 0 /\ miss = {} /\ pmiss = {}
TNext ==
  /\ l <= Len(T.ev) /\ l' = l + 1 /\ tid' = tid /\ pmiss' = miss
  /\ LET e == T.ev[l] IN
     CASE e.event = "Open" ->
            /\ cur' = e.obs /\ prv' = e.fb /\ isopen' = TRUE /\ fresh' = TRUE /\ miss' = ToSet(e.missing)
            /\ loaded' = Kept(e.obs, e.fb)
            /\ lastEnd' = Min(lastEnd, Kept(e.obs, e.fb)) /\ UNCHANGED stored
       [] e.event = "Connect" ->
            /\ cur' = e.obs /\ prv' = cur /\ fresh' = FALSE
            /\ lastEnd' = IF e.ret > 0 THEN e.start + e.ret ELSE lastEnd
            /\ UNCHANGED <<stored, isopen, loaded, miss>>
       [] e.event = "Close" ->
            /\ stored' = e.fobs /\ isopen' = FALSE /\ fresh' = FALSE /\ UNCHANGED <<cur, prv, lastEnd, loaded, miss>>
       [] e.event = "Fetch" ->
            /\ cur' = e.obs /\ prv' = cur /\ fresh' = FALSE /\ miss' = ToSet(e.missing)
            /\ UNCHANGED <<stored, isopen, loaded, lastEnd>>
       [] OTHER -> fresh' = FALSE /\ UNCHANGED <<cur, prv, lastEnd, stored, isopen, loaded, miss>>
TSpec == TInit /\ [][TNext]_tvars

Bad(o) == ToSet(o.bad)
\* ---- from genesis to the end of the most recently connected batch: links, demanded bits, proof of work
\* (heights inside a checkpointed chunk flagged as missing hold placeholders; the first header of a present checkpointed chunk
\*  stands on a placeholder while the chunk below it is missing, the second one has a placeholder two below it)
ChunkOf(h) == (h \div CK) * CK
Excused(h) == \/ ChunkOf(h) \in miss
              \/ /\ ChunkOf(h) \in (ToSet(T.cks) \ miss)         \* (its bits are demanded from the TWO headers below it)
                 /\ (h > 0 /\ ChunkOf(h - 1) \in miss) \/ (h > 1 /\ ChunkOf(h - 2) \in miss)
TChainValid == isopen => (lastEnd <= cur.len /\ \A h \in Bad(cur) : h >= lastEnd \/ Excused(h))

\* ---- connect()
IsConnect == l > 1 /\ E.event = "Connect"
TWholeIfValid == (IsConnect /\ E.fi = 0) => E.ret = E.bn
TNothingBeyondFirstInvalid == (IsConnect /\ E.fi > 0) => E.ret < E.fi
\* the return value is the number of headers of the batch now standing at start.., everything else is as before
\* (headers beyond the batch may be dropped, never changed)
TStoredExactly == IsConnect =>
  LET end == E.start + E.ret IN
    /\ E.ret <= E.bn
    /\ \A i \in 1..E.ret : IdAt(cur, E.start + i - 1) = BatchAt(E, i)
    /\ IF E.ret = 0 THEN cur.len = prv.len ELSE (cur.len = Max(prv.len, end) \/ cur.len = end)
    /\ Agree(cur, prv, 0, Min(E.start, cur.len))
    /\ Agree(cur, prv, end, Min(cur.len, prv.len))

\* ---- checkpointed chunks
IsFetch == l > 1 /\ E.event = "Fetch"
ChunkIsCanonical(o, c) == o.len >= c + CK /\ \A h \in Min(o.base, c + CK)..(c + CK - 1) : h < c \/ IdAt(o, h) = h + 1
TCheckpointOnlyIfHashMatches ==
  (IsFetch /\ ~(E.hashok /\ E.c \in ToSet(T.cks))) => (cur = prv /\ miss = pmiss)
TUnflaggedChunksAreCheckpointed == (isopen /\ l > 1 /\ E.event \in {"Open", "Fetch"}) =>
  \A c \in ToSet(T.cks) \ miss : ChunkIsCanonical(cur, c)

\* ---- restart: fb = the file open() read (prv), stored = the file as the last close() left it
FileBad(h) == h >= prv.len \/ ~Same(prv, stored, h) \/ h \in Bad(stored)
FirstBad == LET S == {h \in Min(Min(prv.base, stored.base), prv.len)..(stored.len - 1) : FileBad(h)} \cup (Bad(stored) \cap 0..(stored.len - 1))
            IN IF S = {} THEN stored.len + 1 ELSE (CHOOSE x \in S : \A y \in S : x <= y)
TLoadedIsPrefix == fresh => (loaded <= stored.len /\ Agree(cur, stored, 0, loaded))
TDropsAtMost == fresh => loaded + 1 >= FirstBad
TPlaceholdersFlagged == fresh => \A h \in loaded..(cur.len - 1) : (h \div CK) * CK \in miss

Reached == TLCSet(tid, IF TLCGetOrDefault(tid, 1) > l THEN TLCGetOrDefault(tid, 1) ELSE l)
Report == TLCGet("stats").diameter >= 0 /\ \A t \in 1..Len(TraceLog) :
            PrintT(<<"TRACE", t, IF TLCGetOrDefault(t, 1) - 1 = Len(TraceLog[t].ev) THEN "accepted" ELSE "rejected", TLCGetOrDefault(t, 1) - 1, Len(TraceLog[t].ev)>>)
=============================================================================
