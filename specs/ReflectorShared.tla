--------------------------- MODULE ReflectorShared ---------------------------
(* G03, two uploads at once.  ReflectorServer creates one asyncio.Event `incoming` (and `not_incoming`) and hands the
   SAME object to the protocol of every connection (server.py, start_server: the lambda closes over
   self.incoming_event).  data_received looks at that flag to decide whether the chunk is payload for ITS OWN writer.
   This module is Reflector.tla reduced to what matters for that: per connection a client that sends
   handshake, offer, then (after "send": true) P payload chunks; per connection a writer; and the flag, either
   shared (SHARED = TRUE, the code) or one per connection (SHARED = FALSE).
     - a chunk that arrives on connection c while the flag is set goes to c's writer; c has none: AttributeError out of
       data_received, the connection dies;
     - a payload chunk that arrives while the flag is clear would be decoded as JSON and dropped (`lost`; TLC shows
       that this never happens before one of the two connections has died: NothingLost holds even when SHARED). *)
EXTENDS Naturals, Sequences, FiniteSets, TLC
CONSTANTS P,        \* payload chunks per blob
          SHARED
Conns == {1, 2}
VARIABLES flag,     \* SHARED: a BOOLEAN; otherwise a function Conns -> BOOLEAN
          cpc,      \* client c: "hs" | "w_hs" | "offer" | "w_offer" | "send" | "w_ack" | "done" | "failed"
          left,     \* payload chunks client c still has to put on the wire
          wire,     \* chunks in flight to the server per connection (FIFO): sequence of "hs" | "offer" | "p"
          ans,      \* answers in flight to client c
          wr,       \* server, connection c: chunks its writer still waits for (0 = no writer)
          shaken, dead, verified, lost
vars == <<flag, cpc, left, wire, ans, wr, shaken, dead, verified, lost>>

Inc(c) == IF SHARED THEN flag ELSE flag[c]
SetInc(c, v) == IF SHARED THEN v ELSE [flag EXCEPT ![c] = v]
Init == /\ flag = IF SHARED THEN FALSE ELSE [c \in Conns |-> FALSE]
        /\ cpc = [c \in Conns |-> "hs"] /\ left = [c \in Conns |-> P]
        /\ wire = [c \in Conns |-> <<>>] /\ ans = [c \in Conns |-> <<>>]
        /\ wr = [c \in Conns |-> 0] /\ shaken = [c \in Conns |-> FALSE] /\ dead = [c \in Conns |-> FALSE]
        /\ verified = {} /\ lost = [c \in Conns |-> FALSE]

\* client c
Client(c) ==
  /\ ~dead[c]
  /\ \/ /\ cpc[c] = "hs" /\ cpc' = [cpc EXCEPT ![c] = "w_hs"] /\ wire' = [wire EXCEPT ![c] = @ \o <<"hs">>] /\ UNCHANGED <<left, ans>>
     \/ /\ cpc[c] = "w_hs" /\ ans[c] # <<>> /\ ans' = [ans EXCEPT ![c] = <<>>]
        /\ cpc' = [cpc EXCEPT ![c] = "w_offer"] /\ wire' = [wire EXCEPT ![c] = @ \o <<"offer">>] /\ UNCHANGED left
     \/ /\ cpc[c] = "w_offer" /\ ans[c] # <<>> /\ ans' = [ans EXCEPT ![c] = <<>>]
        /\ cpc' = [cpc EXCEPT ![c] = "send"] /\ UNCHANGED <<left, wire>>
     \/ /\ cpc[c] = "send" /\ left[c] > 0 /\ left' = [left EXCEPT ![c] = @ - 1]          \* the blob leaves in P segments
        /\ wire' = [wire EXCEPT ![c] = @ \o <<"p">>]
        /\ cpc' = [cpc EXCEPT ![c] = IF left[c] = 1 THEN "w_ack" ELSE "send"] /\ UNCHANGED ans
     \/ /\ cpc[c] = "w_ack" /\ ans[c] # <<>> /\ ans' = [ans EXCEPT ![c] = <<>>]
        /\ cpc' = [cpc EXCEPT ![c] = "done"] /\ UNCHANGED <<left, wire>>
  /\ UNCHANGED <<flag, wr, shaken, dead, verified, lost>>

\* server: data_received on connection c with the head of its wire (the request task runs at once)
Deliver(c) ==
  /\ wire[c] # <<>> /\ ~dead[c]
  /\ LET u == wire[c][1] IN
     /\ wire' = [wire EXCEPT ![c] = Tail(@)]
     /\ IF Inc(c)
        THEN IF wr[c] = 0
             THEN /\ dead' = [dead EXCEPT ![c] = TRUE] /\ UNCHANGED <<flag, wr, shaken, verified, lost, ans>>   \* AttributeError
             ELSE IF wr[c] = 1
                  THEN /\ wr' = [wr EXCEPT ![c] = 0] /\ verified' = verified \cup {c} /\ flag' = SetInc(c, FALSE)
                       /\ ans' = [ans EXCEPT ![c] = <<"received">>] /\ UNCHANGED <<shaken, dead, lost>>
                  ELSE /\ wr' = [wr EXCEPT ![c] = @ - 1] /\ UNCHANGED <<flag, shaken, dead, verified, lost, ans>>
        ELSE CASE u = "hs" -> /\ shaken' = [shaken EXCEPT ![c] = TRUE] /\ ans' = [ans EXCEPT ![c] = <<"version">>]
                              /\ UNCHANGED <<flag, wr, dead, verified, lost>>
               [] u = "offer" -> /\ wr' = [wr EXCEPT ![c] = P] /\ flag' = SetInc(c, TRUE) /\ ans' = [ans EXCEPT ![c] = <<"send">>]
                                 /\ UNCHANGED <<shaken, dead, verified, lost>>
               [] OTHER -> /\ lost' = [lost EXCEPT ![c] = TRUE] /\ UNCHANGED <<flag, wr, shaken, dead, verified, ans>>   \* payload decoded as JSON: dropped
  /\ UNCHANGED <<cpc, left>>
Next == \E c \in Conns : Client(c) \/ Deliver(c)
Spec == Init /\ [][Next]_vars

Quiet == \A c \in Conns : wire[c] = <<>> \/ dead[c]
\* both uploads complete whatever the interleaving
BothComplete == (Quiet /\ \A c \in Conns : ~ENABLED Client(c)) => verified = Conns
NoneDies == \A c \in Conns : ~dead[c]
NothingLost == \A c \in Conns : ~lost[c]
=============================================================================
