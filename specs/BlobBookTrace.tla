---------------------------- MODULE BlobBookTrace ----------------------------
(* Trace validation for C18: observations (os.listdir(blob_dir), `select blob_hash, status from blob`,
   blob_manager.completed_blob_hashes) recorded after every action of a history executed on the REAL BlobManager
   and SQLiteStorage.  The four clauses of the property are evaluated on the real state right after every completed
   start-up, and the "second start-up with nothing in between" clause on every start-up that follows a start-up
   directly (only a process death between them).

   TRACE_FILE: JSON array of [ev |-> << [event, obs |-> [disk, db, completed]] >>] *)
EXTENDS Naturals, Sequences, FiniteSets, TLC, Json, IOUtils, TLCExt
VARIABLES tid, l, obs, justStarted, cleanStarts
tvars == <<tid, l, obs, justStarted, cleanStarts>>
TraceLog == JsonDeserialize(IOEnv.TRACE_FILE)
T == TraceLog[tid]
ToSet(q) == {q[i] : i \in DOMAIN q}
NAMES == {"h1", "h2", "h3", "h4"}

TInit == /\ tid \in 1..Len(TraceLog) /\ l = 1 /\ justStarted = FALSE /\ cleanStarts = 0
         /\ obs = [disk |-> <<>>, db |-> [h1 |-> "absent", h2 |-> "absent", h3 |-> "absent", h4 |-> "absent"], completed |-> <<>>]
Quiet == {"Crash", "Stop", "StartScan", "StartSync", "StartEnsure"}      \* events that are part of dying and starting
TNext == /\ l <= Len(T.ev) /\ l' = l + 1 /\ tid' = tid
         /\ obs' = T.ev[l].obs
         /\ justStarted' = (T.ev[l].event = "StartEnsure")
         /\ cleanStarts' = IF T.ev[l].event = "StartEnsure" THEN (IF cleanStarts >= 2 THEN 2 ELSE cleanStarts + 1)
                           ELSE IF T.ev[l].event \in Quiet THEN cleanStarts ELSE 0
TSpec == TInit /\ [][TNext]_tvars

Disk == ToSet(obs.disk)
Completed == ToSet(obs.completed)
Status(h) == CASE h = "h1" -> obs.db.h1 [] h = "h2" -> obs.db.h2 [] h = "h3" -> obs.db.h3 [] h = "h4" -> obs.db.h4
TCompletedHaveFiles == justStarted => Completed \subseteq Disk
TFilesAreFinished == justStarted => \A h \in Disk : Status(h) = "finished"
TFinishedHaveFiles == justStarted => \A h \in NAMES : Status(h) = "finished" => h \in Disk
TSecondStartExact == (justStarted /\ cleanStarts >= 2) => Completed = Disk

Reached == TLCSet(tid, IF TLCGetOrDefault(tid, 1) > l THEN TLCGetOrDefault(tid, 1) ELSE l)
Report == TLCGet("stats").diameter >= 0 /\ \A t \in 1..Len(TraceLog) :
            PrintT(<<"TRACE", t, IF TLCGetOrDefault(t, 1) - 1 = Len(TraceLog[t].ev) THEN "accepted" ELSE "rejected", TLCGetOrDefault(t, 1) - 1, Len(TraceLog[t].ev)>>)
=============================================================================
