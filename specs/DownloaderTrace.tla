--------------------------- MODULE DownloaderTrace ---------------------------
(* Judge of recorded runs of the REAL BlobDownloader (G04).  A run is the real downloader + request_blob + client
   protocol + BlobManager under the deterministic loop, TCP replaced by a fake network in which every peer address has
   a scripted behaviour or a real BlobServerProtocol.  All delays are multiples of one tick (1000 / TPS ms).

   The record is replayed THROUGH THE ACTIONS OF Downloader.tla: every event names the action the real code took
   (with the observed parameters: which requests a loop pass started, how a request ended, what score it got), the
   time between events is Downloader!Advance, and after every event the public dictionaries of the real object
   (active_connections, ignored with the ban age, failures, scores, connections and whether their transports live,
   connection_failures, is_running) must equal the specification's state (`drift`).  So a run is accepted only if the
   real code did what the specification allows (refinement), and every clause of Downloader.tla is evaluated by TLC on
   the states of the real run.  Clauses the code is known to break (FailedIsShunned for peers that close the connection,
   CloseLeavesNothing / NoTransferAfterStop, Completes on a blob of unknown length that a wrong-length reply poisoned) are
   reported as FLAG lines, not as rejections.

   TRACE_FILE: JSON array of [cap, lenknown, expect, kind |-> [p1 |-> "honest", ...], ev |-> << event >>]; events (t in ms):
     arrive(peers) call(b, s) verified(b) iter(s) req_start(p) conn_open(p) conn_close(p) hdr(p) last(p)
     req_end(p, out, s) cleanup(s) return(verified, s) cancel cancelled close_call close(s, tasks) end(tasks, open) *)
EXTENDS Downloader, Sequences, Json, IOUtils, TLCExt
VARIABLES tid, l, clock, drift, nopen, left, creq
tvars == <<vars, tid, l, clock, drift, nopen, left, creq>>
TraceLog == JsonDeserialize(IOEnv.TRACE_FILE)
T == TraceLog[tid]
E == T.ev[l]
ToSet(q) == {q[i] : i \in DOMAIN q}
TICKMS == 1000 \div TPS
Get(r, p, d) == IF p \in DOMAIN r THEN r[p] ELSE d

TInit == /\ tid \in 1..Len(TraceLog) /\ l = 1 /\ clock = 0 /\ drift = "" /\ nopen = [p \in PEERS |-> 0] /\ left = 0 /\ creq = FALSE
         /\ kind = [p \in PEERS |-> Get(TraceLog[tid].kind, p, "silent")] /\ cap = TraceLog[tid].cap
         /\ lenknown = TraceLog[tid].lenknown /\ poison = [b \in 1..NBLOBS |-> IF TraceLog[tid].lenknown THEN "right" ELSE "unknown"]
         /\ queued = {} /\ ph = [p \in PEERS |-> "none"] /\ tm = [p \in PEERS |-> 0] /\ wopen = [p \in PEERS |-> FALSE]
         /\ rb = [p \in PEERS |-> 0] /\ why = [p \in PEERS |-> "none"]
         /\ ignored = {} /\ age = [p \in PEERS |-> 0] /\ failures = [p \in PEERS |-> 0] /\ scores = [p \in PEERS |-> 0]
         /\ conns = {} /\ live = {} /\ connfail = {} /\ running = FALSE /\ pc = "idle" /\ cur = 0 /\ slp = 0
         /\ postclean = FALSE /\ bst = [b \in 1..NBLOBS |-> "none"] /\ iters = 0
         /\ ago = [p \in PEERS |-> BanTicks(1)] /\ result = "none" /\ closedSince = FALSE /\ ext = 0

\* ---- comparison of the specification's state (primed: after the step) with the snapshot of the real object
\* whether the kept transport is alive is compared for peers without a request in flight (during a request the transport
\* closes a few callbacks before the request's outcome is booked)
Idle(S) == {p \in S : ph'[p] \in {"none", "done"}}
Mismatch(s, t) ==
  IF Active' # ToSet(s.active) THEN "active_connections"
  ELSE IF ignored' # DOMAIN s.ignored THEN "ignored"
  ELSE IF \E p \in ignored' : age'[p] # Min(BANMAX * TPS, (t - s.ignored[p]) \div TICKMS) THEN "ignored-since"
  ELSE IF \E p \in PEERS : failures'[p] # Min(FMAX, Get(s.failures, p, 0)) THEN "failures"
  ELSE IF \E p \in PEERS : scores'[p] # Get(s.scores, p, 0) THEN "scores"
  ELSE IF conns' # ToSet(s.conns) THEN "connections"
  ELSE IF Idle(live') # Idle(ToSet(s.live)) THEN "connections-live"
  ELSE IF connfail' # ToSet(s.connfail) THEN "connection_failures"
  ELSE IF running' # s.running THEN "is_running"
  ELSE ""
Note(m) == drift' = IF drift # "" THEN drift ELSE m
Ev(e) == l <= Len(T.ev) /\ E.e = e /\ E.t = clock /\ l' = l + 1 /\ UNCHANGED <<tid, clock>>
\* the polled state of the blob being downloaded agrees (a guard: it decides between the orders in which the hidden
\* WriterCallback may have run, see TrWriterCallback)
BlobOK(s) == cur' # 0 => s.bst = bst'[cur']
Quiet == UNCHANGED <<nopen, left, creq>>
Skip == UNCHANGED vars

\* time passes up to the next event
TrAdvance == /\ l <= Len(T.ev) /\ E.t > clock /\ (E.t - clock) % TICKMS = 0
             /\ Advance((E.t - clock) \div TICKMS)
             /\ clock' = E.t /\ ~creq /\ UNCHANGED <<tid, l, drift, nopen, left, creq>>
\* the callbacks of a resolved writer run in the same instant, before or after other work that was already queued:
\* not an event of its own, so both orders are tried and the later observations decide
TrWriterCallback == /\ \E b \in 1..NBLOBS : WriterCallback(b)
                    /\ UNCHANGED <<tid, l, clock, drift, nopen, left, creq>>
\* blob.verified was found set (polled by the recorder before every other event)
TrVerified == Ev("verified") /\ Verified(E.b + 1) /\ Quiet /\ UNCHANGED drift

TrArrive == Ev("arrive") /\ Arrive(ToSet(E.peers)) /\ Quiet /\ UNCHANGED drift
TrCall == Ev("call") /\ Call(E.b + 1) /\ Quiet /\ UNCHANGED drift
TrIter == /\ Ev("iter") /\ Select(ToSet(E.s.active) \ Active) /\ Quiet /\ BlobOK(E.s)
          /\ Note(IF Finished' # ToSet(E.s.done) THEN "finished-tasks" ELSE Mismatch(E.s, E.t))
TrBegin == Ev("req_start") /\ Begin(E.p) /\ Quiet /\ UNCHANGED drift
TrConnOpen == /\ Ev("conn_open") /\ Connected(E.p) /\ nopen' = [nopen EXCEPT ![E.p] = @ + 1] /\ UNCHANGED <<left, drift, creq>>
\* a connection ends: the serving side closed a kept idle connection, or it is the echo of the client closing it
TrConnClose == /\ Ev("conn_close") /\ nopen' = [nopen EXCEPT ![E.p] = IF @ > 0 THEN @ - 1 ELSE 0] /\ UNCHANGED <<left, drift, creq>>
               /\ IF E.p \in live /\ ph[E.p] \notin {"req", "xfer", "fin", "k0"} THEN ServerCloses(E.p) ELSE Skip
TrHdr == /\ Ev("hdr") /\ Quiet /\ UNCHANGED drift
         /\ IF ph[E.p] = "req" /\ SendsHeader(kind[E.p]) /\ poison[rb[E.p]] # "wrong" THEN Header(E.p)
            ELSE IF ph[E.p] = "req" /\ kind[E.p] = "wronglen" /\ poison[rb[E.p]] # "right" THEN LiarHeader(E.p) ELSE Skip
TrLast == /\ Ev("last") /\ Quiet /\ UNCHANGED drift
          /\ IF ph[E.p] = "xfer" /\ wopen[E.p] /\ kind[E.p] = "honest" /\ bst[rb[E.p]] = "none" THEN LastByte(E.p)
             ELSE IF ph[E.p] = "xfer" /\ wopen[E.p] /\ kind[E.p] \in {"corrupt", "wronglen"} THEN LastBad(E.p) ELSE Skip
TrEnd == /\ Ev("req_end") /\ Quiet
         /\ LET p == E.p IN
            CASE E.out = "early" -> EndEarly(p)
              [] E.out = "fail0" -> ConnFail(p) \/ Reject(p, TRUE) \/ ReqTimeout(p) \/ XferTimeout(p, TRUE)
              [] E.out = "failn" -> Bad(p) \/ XferTimeout(p, FALSE) \/ Reject(p, FALSE)
              [] E.out = "keep0" -> EndKeep0(p)
              [] E.out = "keep" -> EndKeep(p, Get(E.s.scores, p, 0))
              [] E.out = "cancelled" -> Drop(p) \/ Killed(p) \/ KeepAliveRace(p)
              [] OTHER -> FALSE
         /\ BlobOK(E.s) /\ Note(Mismatch(E.s, E.t))
TrCleanup == /\ Ev("cleanup") /\ Quiet
             /\ IF pc = "wait" THEN Wake ELSE PostCleanup
             /\ BlobOK(E.s)
             /\ Note(IF Finished' # {} THEN "finished-tasks-kept" ELSE Mismatch(E.s, E.t))
TrReturn == /\ Ev("return") /\ Return /\ Quiet
            /\ Note(IF E.verified # (result = "verified") THEN "returned-blob" ELSE Mismatch(E.s, E.t))
\* task.cancel() on the caller: the CancelledError reaches download_blob some callbacks later in the same instant
TrCancel == Ev("cancel") /\ Skip /\ creq' = TRUE /\ UNCHANGED <<nopen, left, drift>>
TrCancelNow == /\ creq /\ Cancel /\ creq' = FALSE /\ UNCHANGED <<tid, l, clock, drift, nopen, left>>
TrCancelled == Ev("cancelled") /\ Skip /\ Quiet /\ UNCHANGED drift
TrCloseCall == Ev("close_call") /\ Close /\ Quiet /\ UNCHANGED drift
TrClose == Ev("close") /\ Skip /\ UNCHANGED <<nopen, creq>> /\ left' = E.tasks /\ Note(Mismatch(E.s, E.t))
TrFinal == Ev("end") /\ Skip /\ UNCHANGED <<nopen, creq>> /\ left' = E.tasks /\ Note(IF E.open > Cardinality(live) THEN "open-transports" ELSE Mismatch(E.s, E.t))

TNext == \/ TrAdvance \/ TrWriterCallback \/ TrVerified \/ TrArrive \/ TrCall \/ TrIter \/ TrBegin \/ TrConnOpen \/ TrConnClose \/ TrHdr \/ TrLast
         \/ TrEnd \/ TrCleanup \/ TrReturn \/ TrCancel \/ TrCancelNow \/ TrCancelled \/ TrCloseCall \/ TrClose \/ TrFinal
TSpec == TInit /\ [][TNext]_tvars

\* ---- the clauses, on the states of the real run
TRefines == drift = ""
TBoundedConcurrency == BoundedConcurrency
TOnePerPeer == \A p \in PEERS : nopen[p] <= 1
THonestKeepsConnection == HonestKeepsConnection
TNeverUnverified == NeverUnverified
TCancelsLosers == CancelsLosers
TNoBusyLoop == NoBusyLoop
\* at the end of a run (all timeouts have passed) nothing of the downloader is left running
AtEnd == l = Len(T.ev) + 1 /\ Len(T.ev) > 0 /\ T.ev[Len(T.ev)].e = "end"
TQuiescent == AtEnd => (left = 0 /\ InFlight = {})
\* every blob asked for with an honest holder among the peers given (and neither closed nor cancelled) was delivered
TCompletes == AtEnd => \A b \in 1..NBLOBS : (b \in ToSet(T.expect)) => (bst[b] = "verified" \/ \E c \in 1..b : poison[c] = "wrong")

\* development aid: a record with a field dbg stops there with the state printed
TDebug == ~("dbg" \in DOMAIN T /\ l = T.dbg)

\* clauses known to be broken by the code: recorded, not rejected
FlagShun == ~FailedIsShunned
FlagClose == ~CloseLeavesNothing
FlagStop == ~NoTransferAfterStop
FlagPoison == AtEnd /\ \E b \in 1..NBLOBS : b \in ToSet(T.expect) /\ bst[b] # "verified" /\ \E c \in 1..b : poison[c] = "wrong"
Reached == /\ TLCSet(tid, IF TLCGetOrDefault(tid, 1) > l THEN TLCGetOrDefault(tid, 1) ELSE l)
           /\ (FlagShun => TLCSet(100000 + tid, 1))
           /\ (FlagClose => TLCSet(200000 + tid, 1))
           /\ (FlagStop => TLCSet(300000 + tid, 1))
           /\ (FlagPoison => TLCSet(400000 + tid, 1))
Report == TLCGet("stats").diameter >= 0 /\ \A t \in 1..Len(TraceLog) :
            /\ PrintT(<<"TRACE", t, IF TLCGetOrDefault(t, 1) - 1 = Len(TraceLog[t].ev) THEN "accepted" ELSE "rejected", TLCGetOrDefault(t, 1) - 1, Len(TraceLog[t].ev)>>)
            /\ (TLCGetOrDefault(100000 + t, 0) = 1 => PrintT(<<"FLAG", t, "FailedIsShunned">>))
            /\ (TLCGetOrDefault(200000 + t, 0) = 1 => PrintT(<<"FLAG", t, "CloseLeavesNothing">>))
            /\ (TLCGetOrDefault(300000 + t, 0) = 1 => PrintT(<<"FLAG", t, "NoTransferAfterStop">>))
            /\ (TLCGetOrDefault(400000 + t, 0) = 1 => PrintT(<<"FLAG", t, "Completes">>))
=============================================================================
