------------------------------- MODULE Dewies -------------------------------
(* C20 -- LBC <-> dewies conversion as a case-analytic specification.

   Amounts are sign + decimal digit sequences (TLC integers are 32 bit; the property goes to 2.1e17).
   Text is a sequence of one-character strings.  The module defines
     Format(neg, d)  the exact decimal expansion of d / 10^8 in the canonical form
                     (integer part, ".", 1..8 fractional digits, no trailing zero beyond the first)
     ParseOK(s)      the accepted grammar: 1..10 digits "." 1..8 digits, nothing else
     Parse(s)        the integer the string denotes (digit sequence)
   and enumerates the cases the property quantifies over as INITIAL STATES; every state is emitted
   (Emit) with the expected result and becomes one call of the real dewies_to_lbc / lbc_to_dewies.
   TLC itself checks the round-trip laws on the model (invariants below). *)
EXTENDS Naturals, Sequences, FiniteSets, TLC, Json

CONSTANTS MAXDIG,      \* longest amount in digits (18 covers 2.1e17)
          STRLEN,      \* all strings up to this length over ALPHA are parse cases
          DELTA,       \* +-DELTA neighbourhood around the special constants
          EMIT         \* TRUE: print every case as JSON (emission run, one worker)

VARIABLES kind,        \* "fmt" | "parse"
          neg, d,      \* fmt case: sign and digit sequence (most significant first, no leading zero)
          s            \* parse case: the text
vars == <<kind, neg, d, s>>

Digit == 0..9
DCh == <<"0", "1", "2", "3", "4", "5", "6", "7", "8", "9">>
Ch(x) == DCh[x + 1]
IsDigitCh(c) == \E x \in Digit : Ch(x) = c
Val(c) == CHOOSE x \in Digit : Ch(x) = c
Chars(ds) == [i \in 1..Len(ds) |-> Ch(ds[i])]

\* ---------------------------------------------------------------- digit-sequence arithmetic
Rev(q) == [i \in 1..Len(q) |-> q[Len(q) + 1 - i]]
RECURSIVE StripLead(_)
StripLead(q) == IF Len(q) > 1 /\ q[1] = 0 THEN StripLead(Tail(q)) ELSE q
\* little-endian addition with carry
RECURSIVE AddLE(_, _, _)
AddLE(a, b, c) ==
  IF a = <<>> /\ b = <<>> THEN (IF c = 0 THEN <<>> ELSE <<c>>)
  ELSE LET x == IF a = <<>> THEN 0 ELSE Head(a)
           y == IF b = <<>> THEN 0 ELSE Head(b)
           t == x + y + c
       IN <<t % 10>> \o AddLE(IF a = <<>> THEN a ELSE Tail(a), IF b = <<>> THEN b ELSE Tail(b), t \div 10)
Add(a, b) == StripLead(Rev(AddLE(Rev(a), Rev(b), 0)))
\* little-endian subtraction a - b (a >= b) with borrow
RECURSIVE SubLE(_, _, _)
SubLE(a, b, br) ==
  IF a = <<>> THEN <<>>
  ELSE LET y == IF b = <<>> THEN 0 ELSE Head(b)
           t == Head(a) + 10 - y - br
       IN <<t % 10>> \o SubLE(Tail(a), IF b = <<>> THEN b ELSE Tail(b), IF t < 10 THEN 1 ELSE 0)
Sub(a, b) == StripLead(Rev(SubLE(Rev(a), Rev(b), 0)))
Small(n) == IF n < 10 THEN <<n>> ELSE IF n < 100 THEN <<n \div 10, n % 10>> ELSE <<n \div 100, (n \div 10) % 10, n % 10>>
RECURSIVE Pow2(_)
Pow2(k) == IF k = 0 THEN <<1>> ELSE LET p == Pow2(k - 1) IN Add(p, p)

\* ---------------------------------------------------------------- the specification of formatting
PadTo9(q) == IF Len(q) >= 9 THEN q ELSE [i \in 1..9 |-> IF i <= 9 - Len(q) THEN 0 ELSE q[i - (9 - Len(q))]]
IntPart(q) == LET p == PadTo9(q) IN SubSeq(p, 1, Len(p) - 8)
FracPart(q) == LET p == PadTo9(q) IN SubSeq(p, Len(p) - 7, Len(p))
RECURSIVE StripTrail(_)
StripTrail(f) == IF Len(f) > 1 /\ f[Len(f)] = 0 THEN StripTrail(SubSeq(f, 1, Len(f) - 1)) ELSE f
Format(ng, q) == (IF ng THEN <<"-">> ELSE <<>>) \o Chars(IntPart(q)) \o <<".">> \o Chars(StripTrail(FracPart(q)))

\* ---------------------------------------------------------------- the specification of parsing
DotPos(t) == {i \in 1..Len(t) : t[i] = "."}
ParseOK(t) ==
  /\ Cardinality(DotPos(t)) = 1
  /\ LET p == CHOOSE i \in DotPos(t) : TRUE IN
       /\ p - 1 \in 1..10
       /\ Len(t) - p \in 1..8
       /\ \A i \in 1..Len(t) : i # p => IsDigitCh(t[i])
Parse(t) ==
  LET p == CHOOSE i \in DotPos(t) : TRUE
      whole == [i \in 1..(p - 1) |-> Val(t[i])]
      frac == [i \in 1..8 |-> IF p + i <= Len(t) THEN Val(t[p + i]) ELSE 0]
  IN StripLead(whole \o frac)

\* ---------------------------------------------------------------- case generation
\* shape family: lead digit, a run of a fill digit, a short tail: dense at every digit-length boundary
Tails == {<<>>} \cup {<<a>> : a \in {0, 1, 5, 9}} \cup {<<a, b>> : a \in {0, 1, 9}, b \in {0, 1, 9}}
Shape(k, lead, fill, tail) ==
  IF k <= Len(tail) THEN StripLead(SubSeq(tail, 1, k))
  ELSE <<lead>> \o [i \in 1..(k - 1 - Len(tail)) |-> fill] \o tail
ShapeCases == {Shape(k, lead, fill, tail) : k \in 1..MAXDIG, lead \in {1, 2, 9}, fill \in {0, 5, 9}, tail \in Tails}
\* amounts whose last eight digits have a zero run in the middle or at the end (exercise trailing-zero stripping)
ZeroRuns == {StripLead(<<h>> \o [i \in 1..8 |-> IF i = z THEN 7 ELSE 0]) : h \in {0, 3}, z \in 1..8}
\* special constants: 2^53, 2^k around it, the coin supply 2.1e17, max int64
Supply == <<2, 1>> \o [i \in 1..16 |-> 0]
Special == {Pow2(53), Pow2(52), Pow2(54), Pow2(56), Pow2(57), Supply} \cup {Add(Pow2(53), Pow2(k)) : k \in 0..8} \cup {Sub(Pow2(53), Pow2(k)) : k \in 0..8}
               \cup {Add(Pow2(57), Pow2(k)) : k \in 0..5}
Near(c) == {Add(c, Small(k)) : k \in 0..DELTA} \cup {Sub(c, Small(k)) : k \in 0..DELTA}
SpecialCases == UNION {Near(c) : c \in Special}
FmtCases == {q \in ShapeCases \cup ZeroRuns \cup SpecialCases : Len(q) <= MAXDIG}

ALPHA == {"0", "1", "9", ".", "-", "+", " ", "e", ",", "\n"}
RECURSIVE StrUpTo(_)
StrUpTo(n) == IF n = 0 THEN {<<>>} ELSE LET r == StrUpTo(n - 1) IN r \cup {Append(t, c) : t \in {x \in r : Len(x) = n - 1}, c \in ALPHA}
\* grammar strings at the length limits, and everything within one edit of them
Base(i, f, a, b) == [k \in 1..i |-> IF k = 1 THEN a ELSE b] \o <<".">> \o [k \in 1..f |-> IF k = f THEN a ELSE b]
Bases == {Base(i, f, a, b) : i \in {0, 1, 2, 9, 10, 11}, f \in {0, 1, 2, 7, 8, 9}, a \in {"1", "9"}, b \in {"0", "9"}}
Insert(t, p, c) == SubSeq(t, 1, p - 1) \o <<c>> \o SubSeq(t, p, Len(t))
Replace(t, p, c) == [t EXCEPT ![p] = c]
Delete(t, p) == SubSeq(t, 1, p - 1) \o SubSeq(t, p + 1, Len(t))
\* "u": a character outside ASCII that LOOKS like a digit or a full stop (superscript, circled, fullwidth full stop, ...; the
\* driver rolls through them) -- not a digit of the grammar
EDITCH == {".", "-", "+", " ", "e", ",", "\n", "0", "x", "u"}
Edits(t) == {t} \cup {Insert(t, p, c) : p \in 1..(Len(t) + 1), c \in EDITCH}
                \cup {Replace(t, p, c) : p \in 1..Len(t), c \in EDITCH} \cup {Delete(t, p) : p \in 1..Len(t)}
ParseCases == StrUpTo(STRLEN) \cup UNION {Edits(t) : t \in Bases}

Init == \/ /\ kind = "fmt" /\ d \in FmtCases /\ neg \in BOOLEAN /\ s = <<>> /\ ~(neg /\ d = <<0>>)
        \/ /\ kind = "parse" /\ s \in ParseCases /\ d = <<>> /\ neg = FALSE
Next == UNCHANGED vars
Spec == Init /\ [][Next]_vars

\* ---------------------------------------------------------------- what TLC checks on the model (Leg A)
\* formatting then parsing returns the same integer, for every non-negative amount of at most 18 digits
RoundTrip == (kind = "fmt" /\ ~neg) => (ParseOK(Format(FALSE, d)) /\ Parse(Format(FALSE, d)) = d)
\* the canonical form is a fixpoint: parsing an accepted string and formatting the result denotes the same integer
Fixpoint == (kind = "parse" /\ ParseOK(s)) => Parse(Format(FALSE, Parse(s))) = Parse(s)
\* a negative delta is the positive text with a sign; the parser rejects signed text
SignedRejected == (kind = "fmt" /\ neg) => ~ParseOK(Format(TRUE, d))
\* shape of the formatted string: 1..8 fractional digits, no trailing zero unless it is the only one
FormShape == kind = "fmt" => LET t == Format(FALSE, d)  p == CHOOSE i \in DotPos(t) : TRUE IN
                 /\ Len(t) - p \in 1..8 /\ (t[Len(t)] = "0" => Len(t) - p = 1)
                 /\ (t[1] = "0" => p = 2)

\* ---------------------------------------------------------------- emission (Leg B): one JSON line per case
Case == IF kind = "fmt"
        THEN [kind |-> "fmt", neg |-> neg, digits |-> Chars(d), expect |-> Format(neg, d)]
        ELSE [kind |-> "parse", text |-> s, ok |-> ParseOK(s), expect |-> IF ParseOK(s) THEN Chars(Parse(s)) ELSE <<>>]
Emit == EMIT => PrintT(<<"CASE", ToJson(Case)>>)
=============================================================================
