------------------------------- MODULE TxFund -------------------------------
(* C03 -- Transaction.create's balancing loop (lbry/wallet/transaction.py) with DECLARATIVE coin selection: a round
   that needs funds may add any non-empty set of useful, unreserved coins that covers the deficit (what every
   strategy of lbry/wallet/coinselection.py and the sqlite chooser must return), or refuse when no such set exists.
   Constants are the real ones divided by 100: input fee FI, p2pkh output fee FO (34 bytes), the 46-byte placeholder
   output the code uses for cost_of_change FOC, base fee BASE, DUST.  At most 5 rounds; a round that ends without any
   output raises the cost by cost_of_change + 1 and goes again. *)
EXTENDS Naturals, FiniteSets, TLC
CONSTANTS AMOUNTS,       \* function coin id -> amount
          REQS,          \* set of request shapes [sum |-> total requested amount, n |-> number of requested outputs]
          PRES           \* set of pre-chosen input sets
FI == 74  FO == 17  FOC == 23  BASE == 5  DUST == 10
COC == BASE + FOC
U == DOMAIN AMOUNTS
VARIABLES free, ins, reqsum, nreq, change, cost, round, result
vars == <<free, ins, reqsum, nreq, change, cost, round, result>>
RECURSIVE SumAm(_)
SumAm(S) == IF S = {} THEN 0 ELSE LET x == CHOOSE x \in S : TRUE IN AMOUNTS[x] + SumAm(S \ {x})
\* payment >= c  <=>  sum of amounts >= c + FI * #inputs   (kept in the naturals)
PayGE(I, c) == SumAm(I) >= c + FI * Cardinality(I)
PayGT(I, c) == SumAm(I) >  c + FI * Cardinality(I)
Init == /\ \E r \in REQS, p \in PRES :
             /\ ins = p /\ free = U \ p /\ reqsum = r.sum /\ nreq = r.n
             /\ cost = BASE + r.sum + FO * r.n
        /\ change = 0 /\ round = 1 /\ result = "building"
Finish(I, F) ==
  LET addChange == SumAm(I) > cost + COC + DUST + FI * Cardinality(I)       \* change - cost_of_change > DUST
      chg == IF addChange THEN SumAm(I) - (cost + COC + FI * Cardinality(I)) ELSE 0
      hasOut == nreq > 0 \/ addChange IN
  /\ ins' = I /\ free' = F /\ change' = chg
  /\ IF hasOut THEN /\ result' = "ok" /\ UNCHANGED <<cost, round>>
     ELSE IF round = 5 THEN /\ result' = "ok_no_outputs" /\ UNCHANGED <<cost, round>>
     ELSE /\ cost' = cost + COC + 1 /\ round' = round + 1 /\ result' = "building"
  /\ UNCHANGED <<reqsum, nreq>>
Useful(S) == \A s \in S : AMOUNTS[s] > FI
Step ==
  /\ result = "building" /\ round <= 5
  /\ \/ /\ ~PayGE(ins, cost)
        /\ \/ \E S \in (SUBSET free) \ {{}} : /\ PayGE(ins \cup S, cost) /\ Useful(S) /\ Finish(ins \cup S, free \ S)
           \/ /\ ~\E S \in (SUBSET free) \ {{}} : PayGE(ins \cup S, cost) /\ Useful(S)
              /\ result' = "insufficient" /\ UNCHANGED <<free, ins, reqsum, nreq, change, cost, round>>
     \/ /\ PayGE(ins, cost) /\ Finish(ins, free)
Next == Step
Spec == Init /\ [][Next]_vars

\* ------------------------------------------------------------------ the property (fee clauses) on the model
Fee == SumAm(ins) - reqsum - change
NOut == nreq + (IF change > 0 THEN 1 ELSE 0)
ByteFee == BASE + FI * Cardinality(ins) + FO * NOut
Doneok == result \in {"ok", "ok_no_outputs"}
Conservation == Doneok => SumAm(ins) = reqsum + change + Fee /\ SumAm(ins) >= reqsum + change
FeeLower == Doneok => Fee >= ByteFee
Excess == Fee - ByteFee
\* "exceeds it by no more than a small fixed number of change-output costs plus the dust threshold"
FeeUpper == Doneok => Excess <= 5 * (COC + 1) + DUST
FeeUpperPay == (Doneok /\ nreq > 0) => Excess <= COC + DUST        \* tighter when something was requested
SingleChange == Doneok => (change > 0 => change > DUST)
HonestRefusal == result = "insufficient" =>
                   ~\E S \in SUBSET {u \in U : AMOUNTS[u] > FI} : PayGE(ins \cup (S \cap free), cost)
\* a tighter bound must FAIL (negative control that the bound is not vacuous)
FeeUpperTooTight == Doneok => Excess <= COC + DUST
W_Insufficient == result # "insufficient"
W_NoOutputs == result # "ok_no_outputs"
W_Change == ~(Doneok /\ change > 0)
=============================================================================
