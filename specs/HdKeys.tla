------------------------------- MODULE HdKeys -------------------------------
(* C06 -- HD key derivation (BIP32), extended keys, Base58Check, address chains, mnemonic numerals.

   The NUMBERS (HMAC-SHA512, secp256k1, SHA-256, RIPEMD-160, PBKDF2) are not expressible here.  What this
   module decides is everything else the property talks about:

   tree   a SYMBOLIC key tree.  Keys are terms over
            Seed                      I = HMAC-SHA512("Bitcoin seed", seed)        (master: k = IL(I), c = IR(I))
            HM(c, ser, x, i)          I = HMAC-SHA512(c, ser(x) || BE32(i))  ser = "priv": 00||ser256(x), "pub": serP(x)
            scalars  IL(h) | isk | sadd(h, s)   = IL(h) + s  (mod n)
            points   G(s)  | ipk | padd(h, p)   = G*IL(h) + p
          with CKDpriv / CKDpub / N transcribed from lbry/wallet/bip32.py PrivateKey.child / PublicKey.child /
          PrivateKey.public_key, and ONE algebraic fact, G*(a + b) = G*a + G*b, used by the normal forms NS / NP.
          TLC walks every sequence of private derivation, neutering and public derivation up to MAXDEPTH levels
          over the index classes (hardened bit x {0, 1, 2^31-1}, plus the two out-of-range values 2^32 and -1),
          from the master key and from imported keys whose depth byte is 254 / 255, and checks
            TreeLaw            N(CKDpriv(k, i)) = CKDpub(N(k), i) for every normal index i
            TreeFailExact      a derivation fails exactly when it is hardened-from-public, out of range or depth 256
            TreePathDetermines the public key, chain code, index, depth and parent fingerprint of a node depend
                               only on the index path, not on where the neutering happened
            TreeWellLinked     every HMAC of the normal form is keyed by the chain code of, and taken over the
                               key of, the IMMEDIATE parent (so the term is a list: emitted as `links`)
            ExtLayout/ExtParse Ext(k) = version(4) depth(1) parent-fingerprint(4) BE32(index)(4) chain(32)
                               (00||priv | pub)(33) = 78 cells, and Parse(Ext(k)) gives back every field
   b58    Base58 as a radix conversion on CONCRETE small byte strings (long division by 58; leading zero bytes
          <-> leading "1"), B58RoundTrip / B58Canonical
   chk    Base58Check = payload || first4(H(H(payload))) on symbolic cells with Flip(pos) / Drop / Append
          corruptions: ChkAcceptIffIntact (H o H treated as a perfect hash)
   mnem   the mnemonic as a little-endian base-N numeral (Mnemonic.mnemonic_encode / mnemonic_decode)
   chain  the address chains of an account: HierarchicalDeterministic.ensure_address_gap / _generate_keys over the
          pubkey_address rows, `mark used` = set_address_history

   Every state is a case (history variables make every path a distinct state); Emit prints it with the expected
   result computed here, and harness/c06_hdkeys.py replays it on the real PrivateKey / PublicKey / Base58 /
   Mnemonic / Account objects and on an independent hmac + ecdsa interpretation of the emitted terms. *)
EXTENDS Integers, Sequences, FiniteSets, TLC, Json

CONSTANTS MAXDEPTH,     \* derivation levels below the root
          CLASSES,      \* 31-bit value classes of a child index, subset of {0, 1, 2147483647}
          ROOTS,        \* subset of {"master", "iprv254", "iprv255", "ipub254", "ipub255"}
          B58LEN,       \* radix cases: all byte strings up to this length over B58BYTES
          CHKLENS,      \* Base58Check payload lengths
          MNBASES,      \* word-list sizes for the integer mnemonic cases
          MNLEN,        \* digit-class sequences up to this length
          GAPS,         \* set of 100 * (gap of the receiving chain) + (gap of the change chain)  (cfg files have no tuples)
          HISTLEN,      \* address-chain histories up to this many calls
          FAMILIES,     \* which case families to enumerate, subset of {"tree", "b58", "chk", "mnem", "chain"}
          EMIT

VARIABLES kind,         \* case family
          ops, key,     \* tree: operations so far, resulting symbolic key (or failure)
          cs,           \* b58 / chk / mnem: the case record
          gaps, rows, hist, ret   \* chain: gap setting, address rows per chain, calls so far, result of the last call
vars == <<kind, ops, key, cs, gaps, rows, hist, ret>>

Nothing == [t |-> "none"]
Range(q) == {q[j] : j \in DOMAIN q}

\* =========================================================================================== indices
\* a child index is n = h * 2^31 + c; h = 1 hardened, h = 0 normal; h = 2 (n = 2^32) and h = -1 (n = -1) lie
\* outside the 32 bits BIP32 gives an index
GoodIdx == [h : {0, 1}, c : CLASSES]
BadIdx == {[h |-> 2, c |-> 0], [h |-> -1, c |-> 2147483647]}
Hardened(i) == i.h = 1
InRange32(i) == i.h \in {0, 1}
BE32(i) == << i.h * 128 + (i.c \div 16777216), (i.c \div 65536) % 256, (i.c \div 256) % 256, i.c % 256 >>
UnBE32(b) == [h |-> b[1] \div 128, c |-> (b[1] % 128) * 16777216 + b[2] * 65536 + b[3] * 256 + b[4]]

\* =========================================================================================== key terms
Seed == [t |-> "seed"]                                            \* HMAC-SHA512(key = "Bitcoin seed", msg = seed)
MasterHmacKey == "Bitcoin seed"
HM(c, ser, x, i) == [t |-> "hmac", cc |-> c, ser |-> ser, of |-> x, idx |-> i]
IL(h) == [t |-> "IL", h |-> h]
SAdd(h, s) == [t |-> "sadd", h |-> h, s |-> s]
GMul(s) == [t |-> "G", s |-> s]
PAdd(h, p) == [t |-> "padd", h |-> h, p |-> p]
Isk == [t |-> "isk"]      \* secret, public key, chain code, parent fingerprint of an IMPORTED extended key (atoms)
Ipk == [t |-> "ipk"]
Icc == [t |-> "icc"]
Ifp == [t |-> "ifp"]
ZeroFp == [t |-> "zero"]
Fp(p) == [t |-> "fp", of |-> p]                                    \* first4(hash160(serP(p)))

Failure(why) == [fail |-> TRUE, why |-> why]
MkKey(priv, sk, pk, cc, depth, idx, pfp) ==
  [fail |-> FALSE, priv |-> priv, sk |-> sk, pk |-> pk, cc |-> cc, depth |-> depth, idx |-> idx, pfp |-> pfp]

MaxIdx == [h |-> 1, c |-> 2147483647]
Root(r) ==
  CASE r = "master"  -> MkKey(TRUE, IL(Seed), GMul(IL(Seed)), Seed, 0, [h |-> 0, c |-> 0], ZeroFp)
    [] r = "iprv254" -> MkKey(TRUE, Isk, GMul(Isk), Icc, 254, MaxIdx, Ifp)
    [] r = "iprv255" -> MkKey(TRUE, Isk, GMul(Isk), Icc, 255, MaxIdx, Ifp)
    [] r = "ipub254" -> MkKey(FALSE, Nothing, Ipk, Icc, 254, MaxIdx, Ifp)
    [] r = "ipub255" -> MkKey(FALSE, Nothing, Ipk, Icc, 255, MaxIdx, Ifp)

\* PrivateKey.child: `0 <= n < 2^32`; hardened (n >= 2^31) serialises 00||k, otherwise the public key;
\* the child constructor refuses depth 256
CKDpriv(k, i) ==
  IF ~InRange32(i) THEN Failure("index-out-of-range")
  ELSE IF k.depth = 255 THEN Failure("depth-overflow")
  ELSE LET h == IF Hardened(i) THEN HM(k.cc, "priv", k.sk, i) ELSE HM(k.cc, "pub", k.pk, i)
           s == SAdd(h, k.sk)
       IN MkKey(TRUE, s, GMul(s), h, k.depth + 1, i, Fp(k.pk))
\* PrivateKey.public_key
Neuter(k) == [k EXCEPT !.priv = FALSE, !.sk = Nothing]
\* PublicKey.child: `0 <= n < 2^31`
CKDpub(k, i) ==
  IF ~InRange32(i) THEN Failure("index-out-of-range")
  ELSE IF Hardened(i) THEN Failure("hardened-from-public")
  ELSE IF k.depth = 255 THEN Failure("depth-overflow")
  ELSE LET h == HM(k.cc, "pub", k.pk, i)
       IN MkKey(FALSE, Nothing, PAdd(h, k.pk), h, k.depth + 1, i, Fp(k.pk))

\* ---- normal forms: a scalar / point is the list of its HMAC summands (latest first) ending in the root atom;
\* ---- G distributes over the sum, so G(s) has the normal form of s
RECURSIVE NS(_), NP(_), NH(_)
NS(s) == CASE s.t = "IL"   -> <<NH(s.h)>>
           [] s.t = "isk"  -> <<[t |-> "base"]>>
           [] s.t = "sadd" -> <<NH(s.h)>> \o NS(s.s)
NP(p) == CASE p.t = "G"    -> NS(p.s)
           [] p.t = "ipk"  -> <<[t |-> "base"]>>
           [] p.t = "padd" -> <<NH(p.h)>> \o NP(p.p)
NH(h) == CASE h.t = "seed" -> h
           [] h.t = "icc"  -> h
           [] h.t = "hmac" -> [t |-> "hmac", cc |-> NH(h.cc), ser |-> h.ser,
                               of |-> IF h.ser = "priv" THEN NS(h.of) ELSE NP(h.of), idx |-> h.idx]
NKey(k) == [priv |-> k.priv, sk |-> IF k.priv THEN NS(k.sk) ELSE <<>>, pk |-> NP(k.pk), cc |-> NH(k.cc),
            depth |-> k.depth, idx |-> k.idx, pfp |-> IF k.pfp.t = "fp" THEN [t |-> "fp", of |-> NP(k.pfp.of)] ELSE k.pfp]

\* the normal form is a chain: summand j is keyed by the chain code of node j+1 and taken over node j+1's key
CcOf(q) == IF q[1].t = "base" THEN Icc ELSE q[1]       \* chain code of the node whose key has normal form q
WellLinked(k) ==
  LET q == NP(k.pk) IN
    /\ NH(k.cc) = CcOf(q)
    /\ \A j \in 1..(Len(q) - 1) :
         LET rest == SubSeq(q, j + 1, Len(q)) IN
           /\ q[j].t = "hmac" /\ q[j].of = rest /\ q[j].cc = CcOf(rest)
           /\ (q[j].ser = "priv") <=> Hardened(q[j].idx)
    /\ q[Len(q)].t \in {"seed", "base"}
    /\ k.priv => NS(k.sk) = q
\* hence the compact form that is emitted: one record per level, root first
Links(k) == LET q == NP(k.pk) n == Len(q) - 1 IN
              [j \in 1..n |-> LET h == q[n + 1 - j] IN [ser |-> h.ser, h |-> h.idx.h, c |-> h.idx.c, be32 |-> BE32(h.idx)]]

\* =========================================================================================== extended key layout
B(x) == <<"b", x>>                          \* a concrete byte
Sym(name, n) == [j \in 1..n |-> <<name, j>>]   \* the n bytes of a symbolic quantity of this key
VerCells(priv) == Sym(IF priv THEN "xprv" ELSE "xpub", 4)
FpCells(k) == IF k.pfp.t = "zero" THEN <<B(0), B(0), B(0), B(0)>> ELSE Sym("pfp", 4)
ExtCells(k) == VerCells(k.priv) \o <<B(k.depth)>> \o FpCells(k) \o [j \in 1..4 |-> B(BE32(k.idx)[j])]
               \o Sym("cc", 32) \o (IF k.priv THEN <<B(0)>> \o Sym("sk", 32) ELSE Sym("pk", 33))
\* _from_extended_key
ParseCells(c) ==
  IF Len(c) # 78 THEN [ok |-> FALSE]
  ELSE LET ver == SubSeq(c, 1, 4) IN
    IF ver # VerCells(TRUE) /\ ver # VerCells(FALSE) THEN [ok |-> FALSE]
    ELSE IF ver = VerCells(TRUE) /\ c[46] # B(0) THEN [ok |-> FALSE]
    ELSE [ok |-> TRUE, priv |-> ver = VerCells(TRUE), depth |-> c[5][2], pfp |-> SubSeq(c, 6, 9),
          idx |-> UnBE32([j \in 1..4 |-> c[9 + j][2]]), cc |-> SubSeq(c, 14, 45),
          keybytes |-> IF ver = VerCells(TRUE) THEN SubSeq(c, 47, 78) ELSE SubSeq(c, 46, 78)]
\* the same layout as a field list for the driver: `sym` names the quantity, `bytes` are given when concrete
ExtFields(k) == <<
  [f |-> "version", n |-> 4, sym |-> IF k.priv THEN "xprv" ELSE "xpub", bytes |-> <<>>],
  [f |-> "depth", n |-> 1, sym |-> "", bytes |-> <<k.depth>>],
  [f |-> "parent_fingerprint", n |-> 4, sym |-> IF k.pfp.t = "zero" THEN "" ELSE IF k.pfp.t = "ifp" THEN "imported_fp" ELSE "fp_of_parent",
                               bytes |-> IF k.pfp.t = "zero" THEN <<0, 0, 0, 0>> ELSE <<>>],
  [f |-> "index", n |-> 4, sym |-> "", bytes |-> BE32(k.idx)],
  [f |-> "chain_code", n |-> 32, sym |-> "cc", bytes |-> <<>>],
  [f |-> "key", n |-> 33, sym |-> IF k.priv THEN "00+sk" ELSE "pk", bytes |-> <<>>] >>
\* address = Base58Check(prefix(1) || hash160(serP(K))(20))
AddrFields == << [f |-> "prefix", n |-> 1, sym |-> "pubkey_address_prefix"], [f |-> "hash160", n |-> 20, sym |-> "hash160(pk)"] >>
RECURSIVE SumN(_)
SumN(fs) == IF fs = <<>> THEN 0 ELSE Head(fs).n + SumN(Tail(fs))

\* =========================================================================================== tree walk
DerivCount(o) == Cardinality({j \in DOMAIN o : o[j].op # "N"})
IdxPath(o) == LET d == SelectSeq(o, LAMBDA x : x.op # "N") IN [j \in 1..Len(d) |-> [h |-> d[j].h, c |-> d[j].c]]
Op(name, i) == [op |-> name, h |-> i.h, c |-> i.c]
RootOf(o) == o[1].r
TreeInit == /\ kind = "tree" /\ \E r \in ROOTS : ops = <<[op |-> "root", r |-> r, h |-> 0, c |-> 0]>> /\ key = Root(r)
            /\ cs = Nothing /\ gaps = <<>> /\ rows = <<>> /\ hist = <<>> /\ ret = <<>>
Static == UNCHANGED <<kind, cs, gaps, rows, hist, ret>>
CanDerive == kind = "tree" /\ ~key.fail /\ DerivCount(Tail(ops)) < MAXDEPTH
DerivePriv(i) == CanDerive /\ key.priv /\ ops' = Append(ops, Op("P", i)) /\ key' = CKDpriv(key, i) /\ Static
DerivePub(i) == CanDerive /\ ~key.priv /\ ops' = Append(ops, Op("Q", i)) /\ key' = CKDpub(key, i) /\ Static
DoNeuter == kind = "tree" /\ ~key.fail /\ key.priv /\ ops' = Append(ops, [op |-> "N", h |-> 0, c |-> 0]) /\ key' = Neuter(key) /\ Static
TreeNext == DoNeuter \/ \E i \in GoodIdx \cup BadIdx : DerivePriv(i) \/ DerivePub(i)

\* the all-private walk along an index path, from the private root if there is one, else the public walk
RECURSIVE Along(_, _)
Along(k, path) == IF path = <<>> \/ k.fail THEN k
                  ELSE Along(IF k.priv THEN CKDpriv(k, Head(path)) ELSE CKDpub(k, Head(path)), Tail(path))
PubView(k) == NKey(Neuter(k))

TreeLaw == (kind = "tree" /\ ~key.fail /\ key.priv /\ key.depth < 255) =>
             \A i \in GoodIdx : ~Hardened(i) => PubView(CKDpriv(key, i)) = NKey(CKDpub(Neuter(key), i))
TreeHardenedNeedsPrivate == (kind = "tree" /\ ~key.fail) =>
             \A i \in GoodIdx : Hardened(i) => /\ CKDpub(Neuter(key), i) = Failure("hardened-from-public")
                                               /\ (key.priv /\ key.depth < 255 => ~CKDpriv(key, i).fail)
LastOp == ops[Len(ops)]
TreeFailExact == kind = "tree" =>
  (key.fail <=> /\ LastOp.op \in {"P", "Q"}
                /\ \/ LastOp.h \notin {0, 1}
                   \/ LastOp.op = "Q" /\ LastOp.h = 1
                   \/ Root(RootOf(ops)).depth + DerivCount(Tail(ops)) > 255)
TreePathDetermines == (kind = "tree" /\ ~key.fail) =>
  LET straight == Along(Root(RootOf(ops)), IdxPath(Tail(ops))) IN ~straight.fail /\ PubView(straight) = PubView(key)
TreeWellLinked == (kind = "tree" /\ ~key.fail) => WellLinked(key)
TreeDepth == (kind = "tree" /\ ~key.fail) => /\ key.depth = Root(RootOf(ops)).depth + DerivCount(Tail(ops)) /\ key.depth \in 0..255
                                             /\ Len(Links(key)) = DerivCount(Tail(ops))
ExtLayout == (kind = "tree" /\ ~key.fail) => /\ Len(ExtCells(key)) = 78 /\ SumN(ExtFields(key)) = 78
                                             /\ \A j \in 1..4 : BE32(key.idx)[j] \in 0..255
                                             /\ UnBE32(BE32(key.idx)) = key.idx
ExtParse == (kind = "tree" /\ ~key.fail) =>
  LET p == ParseCells(ExtCells(key)) IN
    /\ p.ok /\ p.priv = key.priv /\ p.depth = key.depth /\ p.idx = key.idx /\ p.pfp = FpCells(key)
    /\ p.cc = Sym("cc", 32) /\ p.keybytes = (IF key.priv THEN Sym("sk", 32) ELSE Sym("pk", 33))
    \* and damaged layouts are not extended keys: wrong length, private key without its 00 byte
    /\ ~ParseCells(Tail(ExtCells(key))).ok /\ ~ParseCells(Append(ExtCells(key), B(0))).ok
    /\ (key.priv => ~ParseCells([ExtCells(key) EXCEPT ![46] = B(1)]).ok)

TreeCase == IF key.fail THEN [kind |-> "tree", ops |-> ops, fail |-> TRUE, why |-> key.why]
            ELSE [kind |-> "tree", ops |-> ops, fail |-> FALSE, why |-> "", priv |-> key.priv, depth |-> key.depth,
                  idx |-> key.idx, links |-> Links(key), ext |-> ExtFields(key)]

\* =========================================================================================== Base58 radix
B58CHARS == << "1","2","3","4","5","6","7","8","9","A","B","C","D","E","F","G","H","J","K","L","M","N","P","Q","R","S","T","U",
               "V","W","X","Y","Z","a","b","c","d","e","f","g","h","i","j","k","m","n","o","p","q","r","s","t","u","v","w","x","y","z" >>
B58BYTES == {0, 1, 57, 58, 255}
RECURSIVE StripZ(_)
StripZ(b) == IF b # <<>> /\ Head(b) = 0 THEN StripZ(Tail(b)) ELSE b
LeadZ(b) == Len(b) - Len(StripZ(b))
\* one long division of a big-endian base-256 numeral by 58: <<quotient, remainder>>
RECURSIVE DivAcc(_, _, _)
DivAcc(b, q, r) == IF b = <<>> THEN <<q, r>> ELSE LET cur == r * 256 + Head(b) IN DivAcc(Tail(b), Append(q, cur \div 58), cur % 58)
RECURSIVE Digits58(_, _)
Digits58(b, acc) == LET v == StripZ(b) IN IF v = <<>> THEN acc ELSE LET d == DivAcc(v, <<>>, 0) IN Digits58(d[1], <<d[2]>> \o acc)
Enc58(b) == [j \in 1..LeadZ(b) |-> "1"] \o [j \in 1..Len(Digits58(b, <<>>)) |-> B58CHARS[Digits58(b, <<>>)[j] + 1]]
CharVal(ch) == (CHOOSE v \in 1..58 : B58CHARS[v] = ch) - 1
\* acc * 58 + d on a big-endian base-256 numeral
RECURSIVE MulAdd(_, _, _)
MulAdd(b, carry, out) == IF b = <<>> THEN (IF carry = 0 THEN out ELSE <<carry>> \o out)
                         ELSE LET t == b[Len(b)] * 58 + carry IN MulAdd(SubSeq(b, 1, Len(b) - 1), t \div 256, <<t % 256>> \o out)
RECURSIVE Val58(_, _)
Val58(t, acc) == IF t = <<>> THEN acc ELSE Val58(Tail(t), MulAdd(acc, CharVal(Head(t)), <<>>))
RECURSIVE LeadOnes(_)
LeadOnes(t) == IF t # <<>> /\ Head(t) = "1" THEN 1 + LeadOnes(Tail(t)) ELSE 0
Dec58(t) == [j \in 1..LeadOnes(t) |-> 0] \o StripZ(Val58(t, <<>>))
RECURSIVE BytesUpTo(_)
BytesUpTo(n) == IF n = 0 THEN {<<>>} ELSE LET r == BytesUpTo(n - 1) IN r \cup {Append(b, x) : b \in {y \in r : Len(y) = n - 1}, x \in B58BYTES}
\* an all-zero string cannot occur under Base58Check (the checksum is not zero): outside the claim (DESIGN 8)
B58Cases == {b \in BytesUpTo(B58LEN) : b # <<>> /\ StripZ(b) # <<>>}
B58RoundTrip == kind = "b58" => Dec58(Enc58(cs.bytes)) = cs.bytes
B58Canonical == kind = "b58" => LET t == Enc58(cs.bytes) IN
                  /\ LeadOnes(t) = LeadZ(cs.bytes)                       \* one "1" per leading zero byte, no more
                  /\ \A j \in DOMAIN t : \E v \in 1..58 : B58CHARS[v] = t[j]
                  /\ Cardinality(Range(B58CHARS)) = 58
B58Case == [kind |-> "b58", bytes |-> cs.bytes, text |-> Enc58(cs.bytes)]

\* =========================================================================================== Base58Check
Payload(n) == [j \in 1..n |-> <<"p", j>>]
Check(p) == [j \in 1..4 |-> <<"ck", p, j>>]          \* first4(H(H(p))): a perfect hash of the whole payload
EncCheck(p) == p \o Check(p)
DecCheck(c) == IF Len(c) < 4 THEN [ok |-> FALSE]
               ELSE LET body == SubSeq(c, 1, Len(c) - 4) IN
                 IF SubSeq(c, Len(c) - 3, Len(c)) = Check(body) THEN [ok |-> TRUE, payload |-> body] ELSE [ok |-> FALSE]
Mutate(c, m) == CASE m.m = "none" -> c
                  [] m.m = "flip" -> [c EXCEPT ![m.pos] = <<"x", c[m.pos]>>]     \* any other byte value at that position
                  [] m.m = "drop_last" -> SubSeq(c, 1, Len(c) - 1)
                  [] m.m = "drop_first" -> Tail(c)
                  [] m.m = "append" -> Append(c, <<"y">>)
                  [] m.m = "prepend" -> <<<<"y">>>> \o c
ChkCases == {[n |-> n, m |-> "none", pos |-> 0] : n \in CHKLENS}
            \cup UNION {{[n |-> n, m |-> "flip", pos |-> p] : p \in 1..(n + 4)} : n \in CHKLENS}
            \cup {[n |-> n, m |-> mm, pos |-> 0] : n \in CHKLENS, mm \in {"drop_last", "append", "prepend"}}
            \cup {[n |-> n, m |-> "drop_first", pos |-> 0] : n \in CHKLENS \ {0}}
ChkVerdict(c) == DecCheck(Mutate(EncCheck(Payload(c.n)), c))
ChkAcceptIffIntact == kind = "chk" => LET v == ChkVerdict(cs) IN
                        /\ v.ok <=> cs.m = "none"
                        /\ v.ok => v.payload = Payload(cs.n)
ChkLayout == kind = "chk" => Len(EncCheck(Payload(cs.n))) = cs.n + 4
ChkCase == [kind |-> "chk", n |-> cs.n, m |-> cs.m, pos |-> cs.pos, accept |-> ChkVerdict(cs).ok,
            where |-> IF cs.m # "flip" THEN "" ELSE IF cs.pos <= cs.n THEN "payload" ELSE "checksum"]

\* =========================================================================================== mnemonic numerals
\* mnemonic_encode: while i: words.append(words[i % n]); i //= n          (least significant digit first)
RECURSIVE MnEnc(_, _)
MnEnc(i, n) == IF i = 0 THEN <<>> ELSE <<i % n>> \o MnEnc(i \div n, n)
\* mnemonic_decode: while words: k = index(words.pop()); i = i * n + k     (consumes the words from the END)
RECURSIVE MnDecAcc(_, _, _)
MnDecAcc(d, n, acc) == IF d = <<>> THEN acc ELSE MnDecAcc(SubSeq(d, 1, Len(d) - 1), n, acc * n + d[Len(d)])
MnDec(d, n) == MnDecAcc(d, n, 0)
MAXINT == 2147483647
RECURSIVE Powers(_, _)
Powers(p, n) == IF p > MAXINT \div n THEN {p} ELSE {p} \cup Powers(p * n, n)
MnNumbers(n) == {x \in (0..40) \cup UNION {{p - 1, p, p + 1} : p \in Powers(n, n)} \cup {MAXINT, MAXINT - 1, 1073741824, 1000000007} : x >= 0 /\ x <= MAXINT}
\* digit classes: "0", "1", "m" (= N - 1); the numeral is canonical when its most significant (last) digit is not 0
RECURSIVE DigitSeqs(_)
DigitSeqs(n) == IF n = 0 THEN {<<>>} ELSE LET r == DigitSeqs(n - 1) IN r \cup {Append(d, x) : d \in {y \in r : Len(y) = n - 1}, x \in {"0", "1", "m"}}
RECURSIVE Canon(_)
Canon(d) == IF d # <<>> /\ d[Len(d)] = "0" THEN Canon(SubSeq(d, 1, Len(d) - 1)) ELSE d
MnCases == UNION {{[f |-> "int", base |-> n, i |-> x, digits |-> <<>>] : x \in MnNumbers(n)} : n \in MNBASES}
           \cup {[f |-> "digits", base |-> 0, i |-> 0, digits |-> d] : d \in DigitSeqs(MNLEN)}
MnRoundTrip == (kind = "mnem" /\ cs.f = "int") => MnDec(MnEnc(cs.i, cs.base), cs.base) = cs.i
MnCanonical == (kind = "mnem" /\ cs.f = "int") => LET d == MnEnc(cs.i, cs.base) IN
                 /\ \A j \in DOMAIN d : d[j] \in 0..(cs.base - 1)
                 /\ (d # <<>> => d[Len(d)] # 0)
                 /\ (cs.i = 0 <=> d = <<>>)
MnDigits == (kind = "mnem" /\ cs.f = "digits") => /\ Canon(Canon(cs.digits)) = Canon(cs.digits)
                                                  /\ (Canon(cs.digits) = cs.digits <=> (cs.digits = <<>> \/ cs.digits[Len(cs.digits)] # "0"))
                                                  /\ \A j \in DOMAIN Canon(cs.digits) : Canon(cs.digits)[j] = cs.digits[j]
MnCase == IF cs.f = "int" THEN [kind |-> "mnem", f |-> "int", base |-> cs.base, i |-> cs.i, digits |-> MnEnc(cs.i, cs.base)]
          ELSE [kind |-> "mnem", f |-> "digits", digits |-> cs.digits, canon |-> Canon(cs.digits)]

StaticInit == /\ ops = <<>> /\ key = Nothing /\ gaps = <<>> /\ rows = <<>> /\ hist = <<>> /\ ret = <<>>
              /\ \/ kind = "b58" /\ \E b \in B58Cases : cs = [bytes |-> b]
                 \/ kind = "chk" /\ cs \in ChkCases
                 \/ kind = "mnem" /\ cs \in MnCases

\* =========================================================================================== address chains
\* rows[c]: the pubkey_address rows of chain c (1 = receiving, 2 = change) as a set of [n, u] (child number, used_times)
Chains == {1, 2}
MaxN(r) == CHOOSE m \in {x.n : x \in r} : \A x \in r : x.n <= m
\* `_query_addresses(limit=gap, order_by="n desc")`
RECURSIVE TopDesc(_, _)
TopDesc(r, k) == IF k = 0 \/ r = {} THEN <<>> ELSE LET top == CHOOSE x \in r : x.n = MaxN(r) IN <<top>> \o TopDesc(r \ {top}, k - 1)
RECURSIVE LeadUnused(_)
LeadUnused(q) == IF q # <<>> /\ Head(q).u = 0 THEN 1 + LeadUnused(Tail(q)) ELSE 0
\* ensure_address_gap of one chain: <<rows after, child numbers generated (ascending)>>
EnsureOne(r, gap) ==
  LET window == TopDesc(r, gap)
      existing == LeadUnused(window)
  IN IF existing = gap THEN <<r, <<>>>>
     ELSE LET start == IF window # <<>> THEN window[1].n + 1 ELSE 0
              cnt == gap - existing
          IN << r \cup {[n |-> start + j - 1, u |-> 0] : j \in 1..cnt}, [j \in 1..cnt |-> start + j - 1] >>
ChainInit == /\ kind = "chain" /\ \E g \in GAPS : gaps = <<g \div 100, g % 100>>
             /\ rows = <<{}, {}>> /\ hist = <<>> /\ ret = <<>>
             /\ ops = <<>> /\ key = Nothing /\ cs = Nothing
ChainStatic == UNCHANGED <<kind, ops, key, cs, gaps>>
CanCall == kind = "chain" /\ Len(hist) < HISTLEN
\* no third Ensure in a row: the second one already shows idempotence
Ensures(a) == a.a \in {"ensure", "ensure_all"}
NotThird == ~(Len(hist) >= 2 /\ Ensures(hist[Len(hist)]) /\ Ensures(hist[Len(hist) - 1]))
Ensure(c) == /\ CanCall /\ NotThird
             /\ LET e == EnsureOne(rows[c], gaps[c]) IN
                  /\ rows' = [rows EXCEPT ![c] = e[1]]
                  /\ ret' = [j \in 1..Len(e[2]) |-> [c |-> c, n |-> e[2][j]]]
             /\ hist' = Append(hist, [a |-> "ensure", c |-> c, n |-> 0, u |-> 0]) /\ ChainStatic
\* Account.ensure_address_gap: receiving, then change
EnsureAll == /\ CanCall /\ NotThird
             /\ LET e1 == EnsureOne(rows[1], gaps[1]) e2 == EnsureOne(rows[2], gaps[2]) IN
                  /\ rows' = <<e1[1], e2[1]>>
                  /\ ret' = [j \in 1..Len(e1[2]) |-> [c |-> 1, n |-> e1[2][j]]] \o [j \in 1..Len(e2[2]) |-> [c |-> 2, n |-> e2[2][j]]]
             /\ hist' = Append(hist, [a |-> "ensure_all", c |-> 0, n |-> 0, u |-> 0]) /\ ChainStatic
\* set_address_history(address of child n of chain c, history with u entries)
Mark(c, n, u) == /\ CanCall /\ \E x \in rows[c] : x.n = n /\ x.u < u
                 /\ rows' = [rows EXCEPT ![c] = {IF x.n = n THEN [x EXCEPT !.u = u] ELSE x : x \in @}]
                 /\ ret' = <<>>
                 /\ hist' = Append(hist, [a |-> "mark", c |-> c, n |-> n, u |-> u]) /\ ChainStatic
MARKU == {1}
ChainNext == EnsureAll \/ \E c \in Chains : Ensure(c) \/ \E n \in 0..(HISTLEN * 8), u \in MARKU : Mark(c, n, u)

Contiguous == kind = "chain" => \A c \in Chains : /\ {x.n : x \in rows[c]} = 0..(Cardinality(rows[c]) - 1)
                                                  /\ \A x, y \in rows[c] : x.n = y.n => x = y
Restored(c) == /\ Cardinality(rows[c]) >= gaps[c]
               /\ \A x \in rows[c] : x.n >= Cardinality(rows[c]) - gaps[c] => x.u = 0
LastCall == hist[Len(hist)]
GapRestored == (kind = "chain" /\ hist # <<>>) =>
                 /\ (LastCall.a = "ensure" => Restored(LastCall.c))
                 /\ (LastCall.a = "ensure_all" => Restored(1) /\ Restored(2))
\* what is generated is the next stretch of the chain, in ascending order; nothing beyond the gap is generated
NextStretch == (kind = "chain" /\ hist # <<>>) => \A c \in Chains :
                 LET mine == SelectSeq(ret, LAMBDA x : x.c = c) IN
                   /\ \A j \in DOMAIN mine : mine[j].n = Cardinality(rows[c]) - Len(mine) + j - 1
                   /\ (mine # <<>> => \E x \in rows[c] : x.n = Cardinality(rows[c]) - 1 /\ x.u = 0)
NoOverGeneration == kind = "chain" => \A c \in Chains :
                 Cardinality(rows[c]) <= gaps[c] + (IF \E x \in rows[c] : x.u > 0 THEN MaxN({x \in rows[c] : x.u > 0}) + 1 ELSE 0)
Idempotent == (kind = "chain" /\ Len(hist) >= 2 /\ Ensures(LastCall) /\ Ensures(hist[Len(hist) - 1])
               /\ (hist[Len(hist) - 1].a = "ensure_all" \/ hist[Len(hist) - 1] = LastCall)) => ret = <<>>
\* the key behind address n of chain c: account.public_key.child(c - 1).child(n) -- public derivation only; the owner's
\* private route account.private_key.child(c - 1).child(n) must land on the same key (AddrKeyLaw)
AddrKey(c, n) == CKDpub(CKDpub(Neuter(Root("master")), [h |-> 0, c |-> c - 1]), [h |-> 0, c |-> n])
AddrKeyLaw == kind = "chain" => \A c \in Chains, n \in {0, 1} :
                PubView(Along(Root("master"), <<[h |-> 0, c |-> c - 1], [h |-> 0, c |-> n]>>)) = NKey(AddrKey(c, n))
RowsSeq(r) == [j \in 1..Cardinality(r) |-> (CHOOSE x \in r : x.n = j - 1).u]
ChainCase == [kind |-> "chain", gaps |-> gaps, hist |-> hist, used |-> <<RowsSeq(rows[1]), RowsSeq(rows[2])>>, ret |-> ret]

\* =========================================================================================== the whole
Init == \/ "tree" \in FAMILIES /\ TreeInit
        \/ kind \in FAMILIES /\ StaticInit
        \/ "chain" \in FAMILIES /\ ChainInit
Next == TreeNext \/ ChainNext
Spec == Init /\ [][Next]_vars

Case == CASE kind = "tree" -> TreeCase [] kind = "b58" -> B58Case [] kind = "chk" -> ChkCase
          [] kind = "mnem" -> MnCase [] kind = "chain" -> ChainCase
Emit == EMIT => PrintT(<<"CASE", ToJson(Case)>>)
\* layout facts that do not depend on the case, printed once
ASSUME EMIT => PrintT(<<"META", ToJson([addr |-> AddrFields, addrkey |-> Links(AddrKey(2, 1)), hmackey |-> MasterHmacKey, b58chars |-> B58CHARS,
                                        check |-> [n |-> 4, of |-> "H(H(payload))", at |-> "end"]])>>)
=============================================================================
