------------------------------ MODULE Downloader ------------------------------
(* G04 (growth) -- BlobDownloader (lbry/blob_exchange/downloader.py) over request_blob / BlobExchangeClientProtocol
   (lbry/blob_exchange/client.py), as StreamDownloader (lbry/stream/downloader.py) drives it: one downloader object,
   blobs 1..NBLOBS asked for one after the other through download_blob, peers fed into peer_queue at any time,
   close() (StreamDownloader.stop) and cancellation of the caller (wait_for in download_stream_blob) at any time.

   One action per critical section (code between two awaits):
     Arrive        something puts a list of peers into peer_queue (DHT search, fixed peers, tracker); duplicates allowed
     Call          download_blob(blob) up to the first loop iteration (already verified: returns at once)
     Select        one pass of the while loop up to `await new_peer_or_finished()`: batch = connections + everything in
                   the queue, sorted by score (ties in any order), skipping ignored and active peers, starting request
                   tasks while should_race_continue, putting the batch back, creating the sleep(1) task
     Wake          asyncio.wait returned (a request task finished, or the sleep): cleanup_active (clearbanned only when
                   nothing is active and no connection is kept, THEN finished tasks are dropped), loop condition;
                   leaving the loop runs `finally: blob.close(); call_soon(cleanup_active)`
     PostCleanup   that call_soon;  Return  the caller of download_blob resumes
     Begin         first step of a request task: blob already verified -> returns at once; kept live connection is
                   reused (request goes out at once), otherwise create_connection under peer_connect_timeout
     Connected / ConnFail / Header / Reject / ReqTimeout / Drop / LastByte / LastBad / XferTimeout     what the peer does
     WriterCallback / Verified    the blob's side: the winning writer's callback closes the other writers, the bytes reach the disk
     End           request_blob returned or raised: the bookkeeping of request_blob_from_peer
                   (ignored / failures / connection_failures / connections / scores)
     Close, Cancel, ServerCloses, KeepAliveRace, Tick

   Peer kinds: honest (holds the blob, serves it), nothave (honest, does not hold it), silent (accepts, never answers),
   refuse (connection refused), blackhole (connect never completes), corrupt (right header, wrong bytes), wronglen
   (announces a wrong length), stall (header, half of the bytes, then nothing), dropreq (closes on the request), dropmid
   (closes in mid-transfer), garbage (answers with bytes that are no response).

   Time is discrete (TPS ticks per second) and kept as countdown timers / saturating ages, so the state space is finite
   although time is unbounded; Advance(k) lets k ticks pass, never beyond a pending deadline and never while the code
   still has work to do in the current instant (Urgent).

   The statement of G04, clause by clause (restated where the code deliberately does something else):
     BoundedConcurrency / CapWhenKept   at most max_connections_per_download request tasks once a connection is kept,
                        ten times that while none is kept (PROBEF; LiteralCap = the literal reading, refuted)
     OnePerPeer         one request task per peer (structural); one TCP connection per peer (DownloaderTrace)
     NoRetryWhileBanned / BanOnlyExpires   an ignored peer is not asked; an entry leaves `ignored` only through
                        clearbanned after min(30, failures^2) s -- which runs only while nothing is active and no
                        connection is kept -- or through close()
     FailedIsShunned    a peer whose request just failed is not asked again within 1 s: REFUTED by the code for peers
                        that close the connection (BANDROPS = FALSE: CancelledError leaves request_blob_from_peer, nothing
                        is booked); known finding `peer-that-closes-the-connection-is-never-banned`
     HonestKeepsConnection   a request that returned a protocol leaves the peer in `connections`; a live kept connection
                        is reused by the next request (an honest LOSER of the race is cancelled in mid-transfer, its
                        connection closed by the client, but it is not banned)
     Completes (liveness, weak fairness; honest holders answer within their timeouts)   a download with an honest holder
                        among the peers it was given ends verified unless closed / cancelled; NeverUnverified: the loop
                        hands back an unverified blob only after close()
     CancelsLosers      once the blob is verified no other transfer of it is in progress; requests still connecting or
                        waiting for the response header are NOT cancelled, they end within their timeouts (RequestsEnd)
     CloseLeavesNothing / NoTransferAfterStop   REFUTED by the code (CLOSECANCELS = FALSE): close() closes only the KEPT
                        connections; known finding `close-leaves-requests-running`
     NoBusyLoop         between two arrivals / request endings / ticks / calls the loop makes at most two passes
   Switches (the value of the code first): BANDROPS = FALSE, CLOSECANCELS = FALSE, PROBEF = 10, PERCONN = TRUE (a length
   announced for a blob of unknown length binds that connection's writer only; FALSE = the shared blob length before
   /repo 19ea4a3, refutes Completes: negative control), BAN / CAPPED / CANCELLOSERS = TRUE (negative controls). *)
EXTENDS Naturals, FiniteSets, TLC
CONSTANTS PEERS, POPS, LENS,    \* LENS: is the blob's length known to the caller (stream blobs: TRUE; sd blobs: FALSE)
                  \* POPS: the peer populations explored, functions PEERS -> Kinds
          CAPS, PROBEF,         \* the values of max_connections_per_download explored; the probe multiplier
          TPS,                  \* ticks per second: sleep(1) = TPS, ban = min(BANMAX, failures^2) seconds
          CONNTO, DLTO,         \* peer_connect_timeout, blob_download_timeout (= peer_timeout of the protocol), in ticks
          BANMAX,               \* 30 (seconds)
          FMAX,                 \* failures counter saturates here (FMAX^2 >= BANMAX: same ban time beyond)
          NBLOBS, UNIT, SCORES, \* UNIT: the score "1"; SCORES: possible scores of a completed transfer
          BAN, BANDROPS, CAPPED, CANCELLOSERS, CLOSECANCELS,
          PERCONN,              \* TRUE: a length announced for a blob of unknown length binds that connection's writer only
                                \* (the code); FALSE: it is written to the shared blob object (the code before 19ea4a3)
          EXT,                  \* how many outside disturbances (close, cancel, server closing a kept connection, repeated call)
          ENVFAIR               \* TRUE: honest holders connect / answer / deliver before their timeouts (model checking)
VARIABLES kind, cap, lenknown, poison, queued, ph, tm, wopen, rb, why, ignored, age, failures, scores, conns, live, connfail,
          running, pc, cur, slp, postclean, bst, iters, ago, result, closedSince, ext
vars == <<kind, cap, lenknown, poison, queued, ph, tm, wopen, rb, why, ignored, age, failures, scores, conns, live, connfail,
          running, pc, cur, slp, postclean, bst, iters, ago, result, closedSince, ext>>

Kinds == {"honest", "nothave", "silent", "refuse", "blackhole", "corrupt", "wronglen", "stall", "dropreq", "dropmid", "garbage"}
Connects(k) == k \notin {"refuse", "blackhole"}
SendsHeader(k) == k \in {"honest", "corrupt", "stall", "dropmid"}          \* a header the client accepts
Holder(p) == kind[p] = "honest"
Phases == {"none", "new", "early", "conn", "k0", "req", "xfer", "fin", "bad", "kill", "done"}
Active == {p \in PEERS : ph[p] # "none"}                \* keys of active_connections
Finished == {p \in PEERS : ph[p] = "done"}              \* tasks that are done() but not yet removed
InFlight == Active \ Finished
Min(a, b) == IF a < b THEN a ELSE b
BanTicks(f) == Min(BANMAX, f * f) * TPS
Score(p) == scores[p]                                   \* 0 = no entry
MaxProbes == IF CAPPED THEN cap * (IF conns # {} THEN 1 ELSE PROBEF) ELSE 1000
BlobOpen(b) == bst[b] = "none"                          \* not verified and writeable

TypeOK == /\ queued \subseteq PEERS /\ ph \in [PEERS -> Phases] /\ wopen \in [PEERS -> BOOLEAN]
          /\ ignored \subseteq PEERS /\ conns \subseteq PEERS /\ live \subseteq conns /\ connfail \subseteq PEERS
          /\ pc \in {"idle", "select", "wait", "ret"} /\ cur \in 0..NBLOBS /\ slp \in 0..TPS
          /\ bst \in [1..NBLOBS -> {"none", "writing", "verified"}]

Init == /\ kind \in POPS /\ cap \in CAPS /\ lenknown \in LENS
        /\ poison = [b \in 1..NBLOBS |-> IF lenknown THEN "right" ELSE "unknown"]      \* what blob.length is
        /\ queued = {} /\ ph = [p \in PEERS |-> "none"] /\ tm = [p \in PEERS |-> 0] /\ wopen = [p \in PEERS |-> FALSE]
        /\ rb = [p \in PEERS |-> 0] /\ why = [p \in PEERS |-> "none"]
        /\ ignored = {} /\ age = [p \in PEERS |-> 0] /\ failures = [p \in PEERS |-> 0] /\ scores = [p \in PEERS |-> 0]
        /\ conns = {} /\ live = {} /\ connfail = {} /\ running = FALSE /\ pc = "idle" /\ cur = 0 /\ slp = 0
        /\ postclean = FALSE /\ bst = [b \in 1..NBLOBS |-> "none"] /\ iters = 0
        /\ ago = [p \in PEERS |-> BanTicks(1)] /\ result = "none" /\ closedSince = FALSE /\ ext = 0

\* ------------------------------------------------------------------------------------------- the feeding side
Arrive(S) == /\ S # {} /\ queued' = queued \cup S /\ iters' = 0
             /\ UNCHANGED <<kind, cap, lenknown, poison, ph, tm, wopen, rb, why, ignored, age, failures, scores, conns, live, connfail, running, pc, cur,
                            slp, postclean, bst, ago, result, closedSince, ext>>

\* ------------------------------------------------------------------------------------------- download_blob
Call(b) == /\ pc = "idle" /\ cur' = b /\ iters' = 0 /\ closedSince' = FALSE
           /\ ext' = (IF bst[b] = "verified" THEN ext + 1 ELSE ext) /\ ext' <= EXT
           /\ IF bst[b] = "verified" THEN /\ pc' = "ret" /\ result' = "verified" /\ UNCHANGED running
                                     ELSE /\ pc' = "select" /\ running' = TRUE /\ result' = "none"
           /\ UNCHANGED <<kind, cap, lenknown, poison, queued, ph, tm, wopen, rb, why, ignored, age, failures, scores, conns, live, connfail, slp,
                          postclean, bst, ago>>

Batch == conns \cup queued
Eligible == {p \in Batch : p \notin Active /\ (BAN => p \notin ignored)}
Room == IF MaxProbes > Cardinality(Active) THEN MaxProbes - Cardinality(Active) ELSE 0
\* the outcome of walking the batch in descending score order (ties in any order) under should_race_continue
SelectOK(S) == /\ S \subseteq Eligible
               /\ IF BlobOpen(cur) THEN /\ Cardinality(S) = Min(Room, Cardinality(Eligible))
                                        /\ \A s \in S, e \in Eligible \ S : Score(s) >= Score(e)
                                   ELSE S = {}
Select(S) == /\ pc = "select" /\ SelectOK(S)
             /\ ph' = [p \in PEERS |-> IF p \in S THEN "new" ELSE ph[p]]
             /\ rb' = [p \in PEERS |-> IF p \in S THEN cur ELSE rb[p]]
             /\ why' = [p \in PEERS |-> IF p \in S THEN "none" ELSE why[p]]
             /\ queued' = Batch                          \* peer_queue.put_nowait(list(batch))
             /\ pc' = "wait" /\ slp' = TPS /\ iters' = iters + 1
             /\ UNCHANGED <<kind, cap, lenknown, poison, tm, wopen, ignored, age, failures, scores, conns, live, connfail, running, cur, postclean, bst,
                            ago, result, closedSince, ext>>

\* clearbanned: entries whose ban time has passed are dropped
Kept == {p \in ignored : age[p] < BanTicks(failures[p])}
CleanedIgnored == IF Active = {} /\ conns = {} THEN Kept ELSE ignored        \* evaluated BEFORE finished tasks are dropped
Dropped(phf) == [p \in PEERS |-> IF phf[p] = "done" THEN "none" ELSE phf[p]]
RbDropped == [p \in PEERS |-> IF ph[p] = "done" THEN 0 ELSE rb[p]]
WhyDropped == [p \in PEERS |-> IF ph[p] = "done" THEN "none" ELSE why[p]]
\* blob.close(): every open writer of the blob is closed (their `finished` futures are cancelled)
CloseWriters(b, phf) == [p \in PEERS |-> IF rb[p] = b /\ phf[p] \in {"xfer", "fin"} /\ wopen[p] THEN "kill" ELSE phf[p]]
WopenAfterClose(b) == [p \in PEERS |-> IF rb[p] = b THEN FALSE ELSE wopen[p]]

Wake == /\ pc = "wait" /\ (Finished # {} \/ slp = 0)
        /\ ignored' = CleanedIgnored
        /\ IF bst[cur] # "verified" /\ running
           THEN /\ pc' = "select" /\ ph' = Dropped(ph) /\ UNCHANGED <<wopen, postclean, result>>
           ELSE /\ pc' = "ret" /\ ph' = CloseWriters(cur, Dropped(ph)) /\ wopen' = WopenAfterClose(cur)
                /\ postclean' = TRUE /\ result' = IF bst[cur] = "verified" THEN "verified" ELSE "unverified"
        /\ rb' = RbDropped /\ why' = WhyDropped
        /\ UNCHANGED <<kind, cap, lenknown, poison, queued, tm, age, failures, scores, conns, live, connfail, running, cur, slp, bst, iters, ago,
                       closedSince, ext>>
PostCleanup == /\ postclean /\ postclean' = FALSE /\ ignored' = CleanedIgnored /\ ph' = Dropped(ph)
               /\ rb' = RbDropped /\ why' = WhyDropped
               /\ UNCHANGED <<kind, cap, lenknown, poison, queued, tm, wopen, age, failures, scores, conns, live, connfail, running, pc, cur, slp,
                              bst, iters, ago, result, closedSince, ext>>
Return == /\ pc = "ret" /\ pc' = "idle"
          /\ UNCHANGED <<kind, cap, lenknown, poison, queued, ph, tm, wopen, rb, why, ignored, age, failures, scores, conns, live, connfail, running, cur,
                         slp, postclean, bst, iters, ago, result, closedSince, ext>>
\* the caller is cancelled (wait_for timeout in download_stream_blob): CancelledError inside new_peer_or_finished
Cancel == /\ pc = "wait" /\ pc' = "idle" /\ result' = "cancelled"
          /\ ph' = CloseWriters(cur, ph) /\ wopen' = WopenAfterClose(cur) /\ postclean' = TRUE /\ iters' = 0
          /\ ext < EXT /\ ext' = ext + 1
          /\ UNCHANGED <<kind, cap, lenknown, poison, queued, tm, rb, why, ignored, age, failures, scores, conns, live, connfail, running, cur, slp, bst,
                         ago, closedSince>>
\* close(): dictionaries cleared, is_running cleared, every KEPT protocol closed (a request in flight on a kept
\* connection is cancelled by that); `connections` itself keeps its entries
OnKept(p) == p \in live /\ ph[p] \in {"req", "xfer", "fin"}
Close == /\ pc # "select"            \* no await between the loop condition and the pass: nothing interleaves there
         /\ connfail' = {} /\ scores' = [p \in PEERS |-> 0] /\ ignored' = {} /\ running' = FALSE /\ live' = {}
         /\ ph' = [p \in PEERS |-> IF OnKept(p) \/ (CLOSECANCELS /\ ph[p] \in {"new", "conn", "k0", "req", "xfer", "fin"})
                                   THEN "kill" ELSE ph[p]]
         /\ wopen' = [p \in PEERS |-> IF OnKept(p) \/ CLOSECANCELS THEN FALSE ELSE wopen[p]]
         /\ iters' = 0 /\ closedSince' = TRUE /\ ago' = [p \in PEERS |-> BanTicks(1)]
         /\ ext < EXT /\ ext' = ext + 1
         /\ UNCHANGED <<kind, cap, lenknown, poison, queued, tm, rb, why, age, failures, conns, pc, cur, slp, postclean, bst, result>>

\* ------------------------------------------------------------------------------------------- one request task
ReqUnch == UNCHANGED <<kind, cap, lenknown, poison, queued, ignored, age, failures, scores, conns, live, connfail, running, pc, cur, slp, postclean,
                       iters, ago, result, closedSince, ext>>
ReqUnchP == UNCHANGED <<kind, cap, lenknown, queued, ignored, age, failures, scores, conns, live, connfail, running, pc, cur, slp, postclean,
                       iters, ago, result, closedSince, ext>>
Begin(p) == /\ ph[p] = "new"
            /\ IF bst[rb[p]] = "verified" THEN /\ ph' = [ph EXCEPT ![p] = "early"] /\ UNCHANGED <<tm, wopen>>
               ELSE IF p \in live
                    THEN IF BlobOpen(rb[p]) THEN /\ ph' = [ph EXCEPT ![p] = "req"] /\ tm' = [tm EXCEPT ![p] = DLTO]
                                                 /\ wopen' = [wopen EXCEPT ![p] = TRUE]
                                            ELSE /\ ph' = [ph EXCEPT ![p] = "k0"] /\ UNCHANGED <<tm, wopen>>
                    ELSE /\ ph' = [ph EXCEPT ![p] = "conn"] /\ tm' = [tm EXCEPT ![p] = CONNTO] /\ UNCHANGED wopen
            /\ UNCHANGED <<rb, why, bst>> /\ ReqUnch
Connected(p) == /\ ph[p] = "conn" /\ Connects(kind[p])
                /\ IF BlobOpen(rb[p]) THEN /\ ph' = [ph EXCEPT ![p] = "req"] /\ tm' = [tm EXCEPT ![p] = DLTO]
                                           /\ wopen' = [wopen EXCEPT ![p] = TRUE]
                                      ELSE /\ ph' = [ph EXCEPT ![p] = "k0"] /\ UNCHANGED <<tm, wopen>>
                /\ UNCHANGED <<rb, why, bst>> /\ ReqUnch
\* the response header arrives: the transfer phase starts (its own timeout); if the writer was closed meanwhile
\* (another peer won, or the loop ended) waiting on its cancelled future raises CancelledError
Header(p) == /\ ph[p] = "req" /\ SendsHeader(kind[p]) /\ poison[rb[p]] # "wrong"
             /\ poison' = IF PERCONN THEN poison ELSE [poison EXCEPT ![rb[p]] = "right"]
             /\ IF wopen[p] THEN /\ ph' = [ph EXCEPT ![p] = "xfer"] /\ tm' = [tm EXCEPT ![p] = DLTO] /\ UNCHANGED why
                            ELSE /\ ph' = [ph EXCEPT ![p] = "kill"] /\ why' = [why EXCEPT ![p] = "loser"] /\ UNCHANGED tm
             /\ UNCHANGED <<rb, wopen, bst>> /\ ReqUnchP
\* a header announcing a WRONG length: refused when the blob's length is known (Reject); on a blob whose length nobody
\* knows yet it is believed and the transfer starts (the bytes then fail the hash).  PERCONN: only this connection's
\* writer expects that length.  ~PERCONN (before 19ea4a3): set_length() on the shared blob object -- the wrong length
\* stays and every honest header is refused from then on (poison = "wrong")
LiarHeader(p) == /\ ph[p] = "req" /\ kind[p] = "wronglen" /\ poison[rb[p]] # "right"
                 /\ poison' = IF PERCONN THEN poison ELSE [poison EXCEPT ![rb[p]] = "wrong"]
                 /\ IF wopen[p] THEN /\ ph' = [ph EXCEPT ![p] = "xfer"] /\ tm' = [tm EXCEPT ![p] = DLTO] /\ UNCHANGED why
                                ELSE /\ ph' = [ph EXCEPT ![p] = "kill"] /\ why' = [why EXCEPT ![p] = "loser"] /\ UNCHANGED tm
                 /\ UNCHANGED <<rb, wopen, bst>> /\ ReqUnchP
\* the last byte with the right hash: the writer's future resolves; its callbacks run later in the same instant, so a
\* second honest peer whose last byte is already queued completes too (both requests end "keep") and a peer that
\* connects in between still finds the blob writeable
LastByte(p) == /\ ph[p] = "xfer" /\ wopen[p] /\ kind[p] = "honest" /\ bst[rb[p]] = "none"
               /\ ph' = [ph EXCEPT ![p] = "fin"] /\ wopen' = [wopen EXCEPT ![p] = FALSE]
               /\ UNCHANGED <<tm, rb, why, bst>> /\ ReqUnch
\* the last byte of a transfer whose hash is wrong: the writer's future fails (InvalidBlobHashError), whatever happens to
\* the blob afterwards this request ends as a failure with bytes received
LastBad(p) == /\ ph[p] = "xfer" /\ wopen[p] /\ kind[p] \in {"corrupt", "wronglen"}
              /\ ph' = [ph EXCEPT ![p] = "bad"] /\ wopen' = [wopen EXCEPT ![p] = FALSE]
              /\ UNCHANGED <<tm, rb, why, bst>> /\ ReqUnch
\* writer_finished_callback: every other writer of the blob is closed (a transfer in progress is cancelled, a request
\* still waiting for its response header is cancelled when the header comes); the blob is being written (not writeable)
Won(b) == bst[b] = "none" /\ \E p \in PEERS : ph[p] = "fin" /\ rb[p] = b
Losing(b) == {q \in PEERS : rb[q] = b /\ wopen[q] /\ ph[q] \in {"req", "xfer"}}
WriterCallback(b) == /\ Won(b) /\ bst' = [bst EXCEPT ![b] = "writing"]
                     /\ IF CANCELLOSERS
                        THEN /\ ph' = [q \in PEERS |-> IF q \in Losing(b) /\ ph[q] = "xfer" THEN "kill" ELSE ph[q]]
                             /\ why' = [q \in PEERS |-> IF q \in Losing(b) /\ ph[q] = "xfer" THEN "loser" ELSE why[q]]
                             /\ wopen' = [q \in PEERS |-> IF q \in Losing(b) THEN FALSE ELSE wopen[q]]
                        ELSE UNCHANGED <<ph, why, wopen>>
                     /\ poison' = [poison EXCEPT ![b] = "right"]        \* save_verified_blob settles the length from the bytes
                     /\ UNCHANGED <<tm, rb>> /\ ReqUnchP
Verified(b) == /\ bst[b] = "writing" /\ bst' = [bst EXCEPT ![b] = "verified"]
               /\ UNCHANGED <<ph, tm, wopen, rb, why>> /\ ReqUnch

\* ---- how a request ends: the bookkeeping of request_blob_from_peer
Fail(p, zero) ==        \* (bytes, None): zero = no byte was received
  /\ connfail' = IF zero THEN connfail \cup {p} ELSE connfail
  /\ IF p \notin ignored
     THEN /\ ignored' = ignored \cup {p} /\ age' = [age EXCEPT ![p] = 0]
          /\ failures' = [failures EXCEPT ![p] = Min(FMAX, @ + 1)] /\ conns' = conns \ {p}
     ELSE UNCHANGED <<ignored, age, failures, conns>>
  /\ live' = live \ {p} /\ ago' = [ago EXCEPT ![p] = 0] /\ UNCHANGED scores
KeepIt(p, s) ==         \* (bytes, protocol)
  /\ failures' = [failures EXCEPT ![p] = 0] /\ conns' = conns \cup {p} /\ live' = live \cup {p}
  /\ scores' = [scores EXCEPT ![p] = s] /\ UNCHANGED <<connfail, ignored, age, ago>>
Cancelled(p, bypeer) == \* CancelledError leaves request_blob_from_peer: the protocol closed itself, nothing is recorded
  /\ live' = live \ {p} /\ ago' = IF bypeer THEN [ago EXCEPT ![p] = 0] ELSE ago
  /\ IF bypeer /\ BANDROPS THEN /\ ignored' = ignored \cup {p} /\ age' = [age EXCEPT ![p] = 0]
                                /\ failures' = [failures EXCEPT ![p] = Min(FMAX, @ + 1)] /\ conns' = conns \ {p}
                           ELSE UNCHANGED <<ignored, age, failures, conns>>
  /\ UNCHANGED <<connfail, scores>>
EndUnch == UNCHANGED <<kind, cap, lenknown, queued, rb, running, pc, cur, slp, postclean, bst, result, closedSince>>
Done(p, w) == /\ ext' = (IF w = "idlerace" THEN ext + 1 ELSE ext)
              /\ UNCHANGED poison
              /\ ph' = [ph EXCEPT ![p] = "done"] /\ tm' = [tm EXCEPT ![p] = 0] /\ why' = [why EXCEPT ![p] = w] /\ wopen' = [wopen EXCEPT ![p] = FALSE]
              /\ iters' = 0 /\ EndUnch

EndEarly(p) == /\ ph[p] = "early" /\ Done(p, "early")
               /\ UNCHANGED <<ignored, age, failures, scores, conns, live, connfail, ago>>
ConnFail(p) == /\ ph[p] = "conn" /\ (kind[p] = "refuse" \/ tm[p] = 0) /\ Fail(p, TRUE) /\ Done(p, "fail0")
EndKeep0(p) == /\ ph[p] = "k0" /\ KeepIt(p, UNIT) /\ Done(p, "keep0")
\* a reply the client refuses (also: an honest header whose length contradicts the wrong length a liar left on a blob
\* of unknown length -- the length belongs to the shared blob object: C10's known finding); blob bytes glued behind it may already have been counted (then bytes > 0)
Refused(p) == \/ kind[p] = "nothave" \/ (kind[p] = "wronglen" /\ poison[rb[p]] = "right")
              \/ (SendsHeader(kind[p]) /\ poison[rb[p]] = "wrong")
Reject(p, zero) == /\ ph[p] = "req" /\ Refused(p) /\ Fail(p, zero) /\ Done(p, IF zero THEN "fail0" ELSE "failn")
ReqTimeout(p) == /\ ph[p] = "req" /\ tm[p] = 0 /\ Fail(p, TRUE) /\ Done(p, "fail0")
Drop(p) == /\ \/ ph[p] = "req" /\ kind[p] = "dropreq"
              \/ ph[p] = "xfer" /\ kind[p] = "dropmid"
           /\ Cancelled(p, TRUE) /\ Done(p, "dropped")
\* the serving side closes an idle kept connection (idle_timeout) just as it is reused: the request is cancelled, nothing
\* is booked, the next pass connects afresh ("probable race on keep alive" in the client)
KeepAliveRace(p) == /\ ph[p] = "req" /\ p \in live /\ ext < EXT /\ Cancelled(p, FALSE) /\ Done(p, "idlerace")
Bad(p) == /\ ph[p] = "bad" /\ Fail(p, FALSE) /\ Done(p, "failn")
\* no more bytes for blob_download_timeout (zero: not one byte came after the header)
XferTimeout(p, zero) == /\ ph[p] = "xfer" /\ wopen[p] /\ tm[p] = 0 /\ Fail(p, zero) /\ Done(p, IF zero THEN "fail0" ELSE "failn")
EndKeep(p, s) == /\ ph[p] = "fin" /\ bst[rb[p]] = "verified" /\ s \in SCORES /\ KeepIt(p, s) /\ Done(p, "keep")
Killed(p) == /\ ph[p] = "kill" /\ Cancelled(p, FALSE) /\ Done(p, IF why[p] = "loser" THEN "loser" ELSE "cancelled")
\* the serving side closes an idle kept connection (idle_timeout of BlobServerProtocol) or goes away
ServerCloses(p) == /\ p \in live /\ ph[p] \notin {"req", "xfer", "fin"} /\ live' = live \ {p}
                   /\ ext < EXT /\ ext' = ext + 1
                   /\ UNCHANGED <<kind, cap, lenknown, poison, queued, ph, tm, wopen, rb, why, ignored, age, failures, scores, conns, connfail, running, pc,
                                  cur, slp, postclean, bst, iters, ago, result, closedSince>>

\* ------------------------------------------------------------------------------------------- time
Timed(p) == ph[p] \in {"conn", "req"} \/ (ph[p] = "xfer" /\ wopen[p])
\* work the loop does without waiting: it all happens before time passes
Urgent == \/ pc \in {"select", "ret"} \/ postclean
          \/ \E p \in PEERS : ph[p] \in {"new", "early", "k0", "kill", "fin", "bad"}
          \/ \E b \in 1..NBLOBS : bst[b] = "writing"
          \/ (pc = "wait" /\ (Finished # {} \/ slp = 0))
\* honest holders answer within their timeouts (an assumption on the environment, used for model checking only)
EnvDue(k) == ENVFAIR /\ \E p \in PEERS : Holder(p) /\ Timed(p) /\ tm[p] <= k
Advance(k) == /\ k >= 1 /\ ~Urgent /\ \A p \in PEERS : Timed(p) => tm[p] >= k
              /\ (pc = "wait" => slp >= k)
              /\ tm' = [p \in PEERS |-> IF Timed(p) THEN tm[p] - k ELSE tm[p]]
              /\ slp' = IF pc = "wait" THEN slp - k ELSE slp
              /\ age' = [p \in PEERS |-> IF p \in ignored THEN Min(BANMAX * TPS, age[p] + k) ELSE 0]
              /\ ago' = [p \in PEERS |-> Min(BanTicks(1), ago[p] + k)]
              /\ iters' = 0
              /\ UNCHANGED <<kind, cap, lenknown, poison, queued, ph, wopen, rb, why, ignored, failures, scores, conns, live, connfail, running, pc, cur,
                             postclean, bst, result, closedSince, ext>>
Tick == ~EnvDue(1) /\ Advance(1)

Feed == \E p \in PEERS \ queued : Arrive({p})
Reader == \E b \in 1..NBLOBS : Call(b) /\ (IF b = 1 THEN TRUE ELSE bst[b - 1] = "verified")       \* a stream is read blob after blob
Next == \/ Feed \/ Reader
        \/ \E b \in 1..NBLOBS : WriterCallback(b) \/ Verified(b)
        \/ \E S \in SUBSET PEERS : Select(S)
        \/ Wake \/ PostCleanup \/ Return \/ Cancel \/ Close \/ Tick
        \/ \E p \in PEERS : \/ Begin(p) \/ Connected(p) \/ Header(p) \/ LiarHeader(p) \/ LastByte(p) \/ EndEarly(p) \/ ConnFail(p)
                            \/ EndKeep0(p) \/ Reject(p, TRUE) \/ Reject(p, FALSE) \/ ReqTimeout(p) \/ Drop(p) \/ KeepAliveRace(p) \/ LastBad(p) \/ Bad(p) \/ XferTimeout(p, TRUE) \/ XferTimeout(p, FALSE)
                            \/ Killed(p) \/ ServerCloses(p) \/ \E s \in SCORES : EndKeep(p, s)
\* (a loop pass follows the loop condition -- Call / Wake -- in the same step of the task: close() and cancellation
\* cannot fall in between; steps of the request tasks are allowed there, which only adds behaviours)
Spec == Init /\ [][Next]_vars

\* ------------------------------------------------------------------------------------------- the clauses (safety)
\* never more request tasks than the cap in force when they were started allows; with a kept connection the cap is
\* max_connections_per_download, without one it is ten times that (the literal "never more than
\* max_connections_per_download" is LiteralCap below: refuted while nothing is kept)
BoundedConcurrency == Cardinality(Active) <= cap * PROBEF
CapWhenKept == [][\A S \in SUBSET PEERS : (Select(S) /\ S # {}) => Cardinality(Active') <= MaxProbes]_vars
LiteralCap == Cardinality(InFlight) <= cap
\* a banned peer is not asked; an entry leaves `ignored` only by close() or when its ban time has passed
NoRetryWhileBanned == [][\A p \in PEERS : (ph[p] = "none" /\ ph'[p] = "new") => p \notin ignored]_vars
BanOnlyExpires == [][\A p \in ignored \ ignored' : closedSince' \/ age[p] >= BanTicks(failures[p])]_vars
\* a peer whose request just ended by the PEER's doing is not asked again within the shortest ban (1 s);
\* refuted by the code for peers that close the connection (BANDROPS = FALSE)
FailedIsShunned == \A p \in PEERS : ph[p] = "new" => ago[p] >= BanTicks(1)
\* a peer whose request returned a protocol is kept, and a kept live connection is reused
HonestKeepsConnection == \A p \in PEERS : /\ (ph[p] = "done" /\ why[p] \in {"keep", "keep0"}) => p \in conns
                                          /\ ph[p] = "conn" => p \notin live
\* the loop only hands back an unverified blob after close()
NeverUnverified == result = "unverified" => ~running
\* once the blob is complete no other transfer of it is in progress (requests still connecting or waiting for a response
\* header are NOT cancelled: they end by themselves within their timeouts)
CancelsLosers == \A p \in PEERS : (rb[p] # 0 /\ bst[rb[p]] = "verified" /\ ph[p] = "xfer") => ~wopen[p]
\* close(): literally "nothing left running" (once the cancellations of that instant have run) is refuted: requests on
\* fresh connections run on; NoTransferAfterStop is the
\* part a user relies on: once the loop has ended after close() nothing downloads any more
CloseLeavesNothing == (closedSince /\ pc = "idle" /\ ~postclean /\ ~Urgent) => InFlight = {}
NoTransferAfterStop == (closedSince /\ pc = "idle") => \A p \in PEERS : ~(ph[p] \in {"xfer", "fin"} /\ wopen[p])
\* between two arrivals / request endings / ticks / calls the loop makes a bounded number of passes
NoBusyLoop == iters <= 2
OnePerPeer == TRUE      \* structural here (one phase per peer); judged on real connections in DownloaderTrace

\* ------------------------------------------------------------------------------------------- reachability witnesses
\* (each is checked as INVARIANT ~W...: TLC must report it violated)
W_Verified == bst[1] = "verified"
W_AllVerified == \A b \in 1..NBLOBS : bst[b] = "verified"
W_Banned == ignored # {}
W_Rebanned == \E p \in PEERS : failures[p] >= 2
W_BanExpired == ext = 0 /\ \E p \in PEERS : failures[p] >= 1 /\ p \notin ignored /\ ph[p] = "none"
W_RetryAfterBan == ext = 0 /\ \E p \in PEERS : failures[p] >= 1 /\ ph[p] = "new"
W_Reuse == \E p \in PEERS : ph[p] = "req" /\ p \in live
W_Loser == \E p \in PEERS : ph[p] = "done" /\ why[p] = "loser"
W_Early == \E p \in PEERS : ph[p] = "early"
W_Keep0 == \E p \in PEERS : ph[p] = "k0"
W_Dropped == \E p \in PEERS : ph[p] = "done" /\ why[p] = "dropped"
W_CapBites == pc = "wait" /\ BlobOpen(cur) /\ Eligible # {}
W_CapBitesKept == W_CapBites /\ conns # {}
W_UnverifiedReturn == result = "unverified"
W_LingerAfterVerified == \E p \in PEERS : rb[p] # 0 /\ bst[rb[p]] = "verified" /\ ph[p] \in {"conn", "req"}
W_KilledByClose == \E p \in PEERS : closedSince /\ ph[p] = "done" /\ why[p] = "cancelled"
W_SleepWake == pc = "wait" /\ slp = 0 /\ Finished = {}
NotW_Verified == ~W_Verified
NotW_AllVerified == ~W_AllVerified
NotW_Banned == ~W_Banned
NotW_Rebanned == ~W_Rebanned
NotW_BanExpired == ~W_BanExpired
NotW_RetryAfterBan == ~W_RetryAfterBan
NotW_Reuse == ~W_Reuse
NotW_Loser == ~W_Loser
NotW_Early == ~W_Early
NotW_Keep0 == ~W_Keep0
NotW_Dropped == ~W_Dropped
NotW_CapBites == ~W_CapBites
NotW_CapBitesKept == ~W_CapBitesKept
NotW_UnverifiedReturn == ~W_UnverifiedReturn
NotW_LingerAfterVerified == ~W_LingerAfterVerified
NotW_KilledByClose == ~W_KilledByClose
NotW_SleepWake == ~W_SleepWake

\* ------------------------------------------------------------------------------------------- liveness
\* what the code does by itself, grouped per peer / for the loop (weak fairness of each group: weaker than fairness
\* of every single action, and enough), plus: honest holders connect, answer and deliver
PeerCode(p) == \/ Begin(p) \/ EndEarly(p) \/ ConnFail(p) \/ EndKeep0(p) \/ Reject(p, TRUE) \/ ReqTimeout(p) \/ Bad(p)
               \/ XferTimeout(p, FALSE) \/ Killed(p) \/ Drop(p) \/ LiarHeader(p) \/ LastBad(p) \/ \E s \in SCORES : EndKeep(p, s)
LoopCode == \/ Wake \/ PostCleanup \/ Return \/ \E S \in SUBSET PEERS : Select(S)
            \/ \E b \in 1..NBLOBS : Verified(b) \/ WriterCallback(b)
HolderEnv(p) == Holder(p) /\ (Connected(p) \/ Header(p) \/ LastByte(p))
Fairness == /\ WF_vars(Tick) /\ WF_vars(LoopCode)
            /\ \A p \in PEERS : WF_vars(PeerCode(p)) /\ WF_vars(HolderEnv(p))
LiveSpec == Spec /\ Fairness
\* a download in progress with an honest holder among the peers it was given completes (unless closed / cancelled)
Completes == \A b \in 1..NBLOBS :
               ((pc \in {"select", "wait"} /\ cur = b /\ running /\ \E p \in queued : Holder(p))
                  ~> (bst[b] = "verified" \/ ~running \/ result = "cancelled"))
\* every request task ends
RequestsEnd == \A p \in PEERS : (ph[p] \notin {"none", "done"}) ~> (ph[p] \in {"none", "done"})
\* and without an honest holder it keeps waiting: it never returns unless closed (NeverUnverified) -- safety above
=============================================================================
