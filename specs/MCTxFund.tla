------------------------------ MODULE MCTxFund ------------------------------
EXTENDS TxFund
\* instance 1: coins around the thresholds, payments
Am1 == [u \in 1..6 |-> CASE u = 1 -> 60 [] u = 2 -> 80 [] u = 3 -> 100 [] u = 4 -> 130 [] u = 5 -> 300 [] u = 6 -> 1000]
Reqs1 == {[sum |-> 0, n |-> 0], [sum |-> 20, n |-> 1], [sum |-> 200, n |-> 1], [sum |-> 250, n |-> 2], [sum |-> 1400, n |-> 1]}
Pres1 == {{}, {1}, {5}}
\* instance 2: only coins barely worth their fee, nothing requested: reaches five rounds and ok_no_outputs
Am2 == [u \in 1..8 |-> CASE u = 1 -> 80 [] u = 2 -> 85 [] u = 3 -> 90 [] u = 4 -> 95 [] u = 5 -> 100 [] u = 6 -> 105 [] u = 7 -> 110 [] u = 8 -> 75]
Reqs2 == {[sum |-> 0, n |-> 0]}
Pres2 == {{1}, {8}}
=============================================================================
