----------------------------- MODULE HeaderSync -----------------------------
(* G01 -- the ledger's header synchronisation (lbry/wallet/ledger.py: start / initial_headers_sync / update_headers /
   receive_header and the header lock; lbry/wallet/header.py: connect as far as the ledger relies on it, C07).

   THE SERVER.  All block chains the server can ever follow form a tree given by the constants FORK and PAR: branch 1
   is the main chain from genesis, branch b > 1 leaves branch PAR[b] with its own first header at height FORK[b].
   An abstract header is <<b, h>> (the header mined on branch b at height h, FORK[b] <= h); it names as predecessor
   the header of ITS chain one below, so "links / carries the demanded bits / has proof of work where it stands"
   is decided by the tree (the real rules are C07's subject and are re-judged on the real headers by the driver).
   srv = <<b, n>> is the server's best tip.  Mine and Reorg change it; every change is ANNOUNCED: the tip is put into
   the bag of header notifications in flight (notes).  Notifications are delivered in any order (late, out of order,
   far ahead of the ledger), twice (Dup) or never (Lose).

   THE LEDGER.  tasks is the FIFO queue of the header lock (asyncio.Lock is fair): its head holds the lock.
     "init"   start(): `async with lock: initial_headers_sync()` = update_headers() without arguments
     "note"   receive_header(): `async with lock: update_headers(height, header, subscription_update=True)`
     "chunk"  the background task of initial_headers_sync that fetches checkpointed chunks: holds the lock across one
              network round trip, never touches headers above the checkpoints (C07: FetchLaw)
   One action per await point of update_headers:
     Start(i)  lock acquired .. the first `await network.retriable_call(get_headers, height, 2001)`; a notification that is
               not ahead of the local chain is connected here, without any request (subscription_update shortcut)
     Reply(i)  the reply arrives -- cut from the server's chain AS IT IS NOW (a reorganisation may have happened between
               the request and the reply, or between the notification and the request) -- .. connect .. the next request,
               return, or raise
   update_headers, transcribed:   rewound = 0
     loop:  if height is None or height > len(headers): height = len(headers); headers = None; subscription_update = False
            if not headers: headers = (await get_headers(height, 2001))['hex']
            if not headers: return
            added = await headers.connect(height, headers)
            if added > 0: height += added; rewound = 0 (if it was > 0); if subscription_update: return
            elif added == 0: height -= 1; rewound += 1
            if height < 0: raise ; if rewound >= 100: raise
            headers = None; subscription_update = False

   Switches (TRUE / 1 = the code; the other value = a negative control that TLC must refute):
     LOCK        receive_header / start take the header lock
     DROP_STALE  connect() drops what is stored beyond a connected batch unless it links to it (C07 repair c53149c)
     CHECK_LINK  connect() validates the link of the first header of a batch to what is stored below it
     STEP        how far a failed connect steps back (1)
     FAR_GUARD   `height > len(headers)` turns a far-ahead notification into a catch-up
     SUB_RESET   `subscription_update = False` at the end of a round that connected nothing

   Not modelled: retriable_call's retries after a timeout or a lost connection (to the ledger: a later reply, and Reply may
   come arbitrarily late); batches with headers that break a rule (a hostile server: C07 -- connect stores nothing of such a
   batch, the ledger treats it like a batch that does not link); the checkpointed region of the header file (C07);
   Database.rewind_blockchain (an empty stub in the product); the ledger's own on_header event stream.

   What TLC shows beside the statement (witnesses W_SteppedBack / W_OffBestAtRest, W_RivalAtStart, W_Stuck):
     * the ledger follows the announcement it processed LAST: a notification for the first header of an abandoned branch that
       arrives after the winner was connected links below the fork and takes the ledger back (until the next notification);
     * an initial sync whose first reply is empty has learnt nothing: a stored tip that is a rival of the server's tip at the
       same height stays until the next notification;
     * a reorganisation R or more deep is never followed: every later update rewinds R times and raises again. *)
EXTENDS Naturals, Integers, Sequences, FiniteSets, TLC, TLCExt

CONSTANTS FORK, PAR,   \* the tree: sequences over branches 1..Len(FORK); FORK[1] = 0, PAR[1] = 1, FORK[PAR[b]] < FORK[b]
          MAXH,        \* greatest height of a tip
          R,           \* rewind bound (100 in the code)
          CHUNK,       \* most headers in one reply (the code asks for 2001, the server caps at its own `max`)
          MAXMOVES,    \* bound on Mine + Reorg per behaviour
          MAXDUP, MAXLOSE, MAXQ,     \* bounds on duplicated / lost notifications, on the lock queue
          MONO,        \* the server only moves to strictly higher tips (more work); FALSE: any other tip (a lagging server)
          INITS,       \* possible local chains at start: set of <<b, len>> (len = 0: no header file)
          SRV0,        \* possible server tips at start
          CHUNKTASK,   \* 1: initial_headers_sync spawns the checkpoint chunk task
          LOCK, DROP_STALE, CHECK_LINK, STEP, FAR_GUARD, SUB_RESET

VARIABLES srv, moves, announced, notes, dups, lost,
          local,       \* the header chain held by the ledger: local[h + 1] = header at height h
          tasks,       \* lock queue, head = holder
          lastNote,    \* tip named by the update that finished last (init: the server's tip at its last, empty, reply)
          outcome,     \* how it finished: "none" | "return" | "deep" | "genesis" | "gap"
          raiseDepth,  \* when it last gave up ("deep"): how many local headers were not on the server's chain
          lastConn,    \* the most recent successful connect: <<top header of the batch, end height (exclusive)>>
          maxRounds,   \* most requests one update issued while the server stood still
          act          \* history: last action (hidden from exhaustive runs by VIEW)
vars == <<srv, moves, announced, notes, dups, lost, local, tasks, lastNote, outcome, raiseDepth, lastConn, maxRounds, act>>
View == <<srv, moves, announced, notes, dups, lost, local, tasks, lastNote, outcome, raiseDepth, lastConn, maxRounds>>

Min(a, b) == IF a < b THEN a ELSE b
Max(a, b) == IF a > b THEN a ELSE b
Branches == 1..Len(FORK)
NoHdr == <<0, -1>>
Genesis == <<1, 0>>

\* ------------------------------------------------------------------ the tree
RECURSIVE HeaderOf(_, _)
HeaderOf(b, h) == IF h >= FORK[b] THEN <<b, h>> ELSE HeaderOf(PAR[b], h)       \* header at height h of the chain through branch b
Prev(x) == IF x[2] <= 0 THEN NoHdr ELSE HeaderOf(x[1], x[2] - 1)
Chain(t) == [k \in 1..(t[2] + 1) |-> HeaderOf(t[1], k - 1)]                       \* the chain with tip t = <<b, n>>
Tips == {t \in Branches \X (0..MAXH) : t[2] >= FORK[t[1]]}
IsPrefix(s, c) == Len(s) <= Len(c) /\ \A k \in 1..Len(s) : s[k] = c[k]
CommonLen(s, c) == LET D == {k \in 1..Min(Len(s), Len(c)) : s[k] # c[k]} IN
                   IF D = {} THEN Min(Len(s), Len(c)) ELSE (CHOOSE x \in D : \A y \in D : x <= y) - 1
\* the reply to get_headers(h, 2001) cut from the server's chain as it is now
Slice(h) == IF h > srv[2] THEN <<>> ELSE [i \in 1..Min(CHUNK, srv[2] - h + 1) |-> HeaderOf(srv[1], h + i - 1)]

\* ------------------------------------------------------------------ Headers.connect (C07), as the ledger uses it
\* a batch with any header that does not validate where it would stand stores nothing (validate_chunk reports the
\* chunk's start height); the server's batches are internally linked, so this is about the first header
ValidIn(loc, h, hs, i) == IF h + i - 1 = 0 THEN hs[i] = Genesis
                          ELSE Prev(hs[i]) = (IF i = 1 THEN loc[h] ELSE hs[i - 1])
Connect(loc, h, hs) ==
  LET ok    == ~CHECK_LINK \/ \A i \in 1..Len(hs) : ValidIn(loc, h, hs, i)
      added == IF ok THEN Len(hs) ELSE 0
      end   == h + added
      base  == SubSeq(loc, 1, h) \o hs
      keep  == end < Len(loc) /\ (~DROP_STALE \/ Prev(loc[end + 1]) = hs[Len(hs)])
  IN IF added = 0 THEN [added |-> 0, loc |-> loc, dropped |-> 0]
     ELSE IF keep THEN [added |-> added, loc |-> base \o SubSeq(loc, end + 1, Len(loc)), dropped |-> 0]
     ELSE [added |-> added, loc |-> base, dropped |-> Max(0, Len(loc) - end)]

\* one round of the loop from "headers in hand" to the next await / return / raise
Round(loc, h, hs, sub, rw) ==
  IF h > Len(loc) THEN [k |-> "gap", loc |-> loc, h |-> h, rw |-> rw, added |-> 0, dropped |-> 0, sub |-> FALSE]
  ELSE LET c == Connect(loc, h, hs) IN
    IF c.added > 0
    THEN IF sub THEN [k |-> "return", loc |-> c.loc, h |-> h + c.added, rw |-> 0, added |-> c.added, dropped |-> c.dropped, sub |-> FALSE]
         ELSE [k |-> "request", loc |-> c.loc, h |-> h + c.added, rw |-> 0, added |-> c.added, dropped |-> c.dropped, sub |-> FALSE]
    ELSE LET h2 == h - STEP  rw2 == rw + 1 IN
         IF h2 < 0 THEN [k |-> "genesis", loc |-> loc, h |-> h2, rw |-> rw2, added |-> 0, dropped |-> 0, sub |-> FALSE]
         ELSE IF rw2 >= R THEN [k |-> "deep", loc |-> loc, h |-> h2, rw |-> rw2, added |-> 0, dropped |-> 0, sub |-> FALSE]
         ELSE [k |-> "request", loc |-> loc, h |-> h2, rw |-> rw2, added |-> 0, dropped |-> 0, sub |-> (sub /\ ~SUB_RESET)]

\* ------------------------------------------------------------------ state
NewTask(kind, x) == [kind |-> kind, note |-> x, pc |-> "new", height |-> -1, rewound |-> 0, sub |-> FALSE, epoch |-> 0, rounds |-> 0, prog |-> FALSE]
Holder(i) == i \in 1..Len(tasks) /\ (LOCK => i = 1)
Urgent == \E i \in 1..Len(tasks) : Holder(i) /\ tasks[i].pc = "new"      \* the lock is handed over without delay
Drop(q, i) == SubSeq(q, 1, i - 1) \o SubSeq(q, i + 1, Len(q))

Init == /\ srv \in SRV0 /\ moves = 0 /\ notes = {} /\ dups = 0 /\ lost = 0
        /\ \E x \in INITS : /\ MONO => x[2] <= srv[2] + 1          \* what an earlier session stored was not higher than the best tip now
                            /\ local = (IF x[2] = 0 THEN <<>> ELSE Chain(<<x[1], x[2] - 1>>))
                            /\ announced = {srv} \cup (IF x[2] = 0 THEN {} ELSE {<<x[1], x[2] - 1>>})
        /\ tasks = <<NewTask("init", NoHdr)>>
        /\ lastNote = NoHdr /\ outcome = "none" /\ raiseDepth = 0 /\ lastConn = <<NoHdr, 0>> /\ maxRounds = 0
        /\ act = <<"Init">>

\* ---- the server
Announce(t) == /\ srv' = t /\ moves' = moves + 1 /\ announced' = announced \cup {t} /\ notes' = notes \cup {t}
               /\ UNCHANGED <<dups, lost, local, tasks, lastNote, outcome, raiseDepth, lastConn, maxRounds>>
Mine == /\ ~Urgent /\ moves < MAXMOVES /\ srv[2] < MAXH
        /\ Announce(<<srv[1], srv[2] + 1>>) /\ act' = <<"Mine", srv[1], srv[2] + 1>>
Reorg(t) == /\ ~Urgent /\ moves < MAXMOVES /\ t \in Tips /\ t[1] # srv[1] /\ (MONO => t[2] > srv[2])
            /\ ~IsPrefix(Chain(t), Chain(srv))
            /\ Announce(t) /\ act' = <<"Reorg", t[1], t[2]>>

\* ---- the notification channel
Enqueue(x) == tasks' = Append(tasks, NewTask("note", x))
Deliver(x) == /\ ~Urgent /\ x \in notes /\ Len(tasks) < MAXQ /\ notes' = notes \ {x} /\ Enqueue(x)
              /\ act' = <<"Deliver", x[1], x[2]>>
              /\ UNCHANGED <<srv, moves, announced, dups, lost, local, lastNote, outcome, raiseDepth, lastConn, maxRounds>>
Dup(x) == /\ ~Urgent /\ x \in notes /\ Len(tasks) < MAXQ /\ dups < MAXDUP /\ dups' = dups + 1 /\ Enqueue(x)
          /\ act' = <<"Dup", x[1], x[2]>>
          /\ UNCHANGED <<srv, moves, announced, notes, lost, local, lastNote, outcome, raiseDepth, lastConn, maxRounds>>
Lose(x) == /\ ~Urgent /\ x \in notes /\ lost < MAXLOSE /\ lost' = lost + 1 /\ notes' = notes \ {x}
           /\ act' = <<"Lose", x[1], x[2]>>
           /\ UNCHANGED <<srv, moves, announced, dups, local, tasks, lastNote, outcome, raiseDepth, lastConn, maxRounds>>

\* ---- the ledger
\* task i ends: the lock goes to the next in the queue
Finish(i, how, loc) ==
  /\ tasks' = Drop(tasks, i) /\ local' = loc
  /\ IF tasks[i].kind = "chunk" THEN UNCHANGED <<lastNote, outcome, raiseDepth>>
     ELSE /\ outcome' = how
          /\ raiseDepth' = IF how = "deep" THEN Len(loc) - CommonLen(loc, Chain(srv)) ELSE raiseDepth
          \* start() was told nothing by a notification: a catch-up that connected something and then got the empty reply
          \* stands where the server stands; one whose FIRST reply was empty ("nothing to do") has learnt nothing -- a rival
          \* tip at the height the ledger already holds is not noticed before the next notification
          /\ lastNote' = IF tasks[i].kind = "init" THEN (IF how = "return" /\ tasks[i].prog THEN srv ELSE NoHdr) ELSE tasks[i].note
\* task i sends get_headers(h) and waits
Request(i, h, rw, sub, loc, q, prog) ==
  LET t  == q[i]
      hh == IF h > Len(loc) THEN Len(loc) ELSE h               \* loop top (under the lock h <= len always)
      n  == IF t.epoch = moves /\ t.rounds > 0 THEN t.rounds + 1 ELSE 1
  IN /\ tasks' = [q EXCEPT ![i] = [t EXCEPT !.pc = "wait", !.height = hh, !.rewound = rw, !.sub = sub, !.epoch = moves, !.rounds = n, !.prog = prog]]
     /\ local' = loc /\ maxRounds' = Max(maxRounds, n)
     /\ UNCHANGED <<lastNote, outcome, raiseDepth>>
Conn(r, hs) == IF r.added > 0 THEN <<hs[Len(hs)], r.h>> ELSE lastConn

Start(i) ==
  /\ Holder(i) /\ tasks[i].pc = "new"
  /\ UNCHANGED <<srv, moves, announced, notes, dups, lost>>
  /\ LET t == tasks[i]
         q == IF t.kind = "init" /\ CHUNKTASK > 0 THEN Append(tasks, NewTask("chunk", NoHdr)) ELSE tasks
     IN
     CASE t.kind = "chunk" ->
            /\ tasks' = [tasks EXCEPT ![i] = [t EXCEPT !.pc = "wait", !.height = -1, !.epoch = moves]]
            /\ act' = <<"Start", "chunk", 0, 0, FALSE, 0, 0>>
            /\ UNCHANGED <<local, lastNote, outcome, raiseDepth, lastConn, maxRounds>>
       [] t.kind = "init" \/ (FAR_GUARD /\ t.note[2] > Len(local)) ->
            /\ Request(i, Len(local), 0, FALSE, local, q, FALSE)
            /\ act' = <<"Start", t.kind, t.note[1], t.note[2], t.kind = "note", 0, 0>>
            /\ UNCHANGED lastConn
       [] OTHER ->          \* a notification at or below the local tip: connected right away
            LET hs == <<HeaderOf(t.note[1], t.note[2])>>
                r  == Round(local, t.note[2], hs, TRUE, 0)
            IN /\ act' = <<"Start", "note", t.note[1], t.note[2], FALSE, r.added, r.dropped>>
               /\ lastConn' = Conn(r, hs)
               /\ IF r.k = "request" THEN Request(i, r.h, r.rw, r.sub, r.loc, q, r.added > 0)
                  ELSE Finish(i, r.k, r.loc) /\ UNCHANGED maxRounds

Reply(i) ==
  /\ Holder(i) /\ tasks[i].pc = "wait"
  /\ UNCHANGED <<srv, moves, announced, notes, dups, lost>>
  /\ LET t == tasks[i]
         changed == t.epoch # moves
     IN IF t.kind = "chunk"
        THEN /\ Finish(i, "return", local) /\ act' = <<"Reply", "chunk", 0, 0, 0, 0, changed, 0>>
             /\ UNCHANGED <<lastConn, maxRounds>>
        ELSE LET hs == Slice(t.height) IN
             IF hs = <<>>
             THEN /\ Finish(i, "return", local) /\ act' = <<"Reply", t.kind, t.height, 0, 0, t.rewound, changed, 0>>
                  /\ UNCHANGED <<lastConn, maxRounds>>
             ELSE LET r == Round(local, t.height, hs, t.sub, t.rewound) IN
                  /\ act' = <<"Reply", t.kind, t.height, Len(hs), r.added, t.rewound, changed, r.dropped>>
                  /\ lastConn' = Conn(r, hs)
                  /\ IF r.k = "request" THEN Request(i, r.h, r.rw, r.sub, r.loc, tasks, t.prog \/ r.added > 0)
                     ELSE Finish(i, r.k, r.loc) /\ UNCHANGED maxRounds

DoReorg   == \E t \in Tips : Reorg(t)
DoDeliver == \E x \in notes : Deliver(x)
DoDup     == \E x \in notes : Dup(x)
DoLose    == \E x \in notes : Lose(x)
DoStart   == \E i \in 1..Len(tasks) : Start(i)
DoReply   == \E i \in 1..Len(tasks) : Reply(i)
Next == Mine \/ DoReorg \/ DoDeliver \/ DoDup \/ DoLose \/ DoStart \/ DoReply
Spec == Init /\ [][Next]_vars

\* ------------------------------------------------------------------ the clauses of G01
\* (1a) the local chain is a valid chain from genesis: every header stands on the predecessor it names
ChainValid == \A k \in 1..Len(local) : IF k = 1 THEN local[1] = Genesis ELSE Prev(local[k]) = local[k - 1]
\* (1b) ... and a prefix-or-equal of a chain the server has announced
PrefixOfAnnounced == local = <<>> \/ \E a \in announced : IsPrefix(local, Chain(a))
\* (2) once a batch of the winning branch was connected, everything at and below its top is its chain and nothing of
\*     another branch is kept above it
NoStaleKept == lastConn[1] # NoHdr =>
                 /\ lastConn[2] <= Len(local) /\ local[lastConn[2]] = lastConn[1]
                 /\ IsPrefix(SubSeq(local, 1, lastConn[2]), Chain(lastConn[1]))
                 /\ (Len(local) > lastConn[2] => Prev(local[lastConn[2] + 1]) = lastConn[1])
\* (3) quiescent, and the update that finished last was for the tip of the server's best chain (and returned): equal
Quiescent == tasks = <<>> /\ notes = {}
Converged == (Quiescent /\ lastNote = srv /\ outcome = "return") => local = Chain(srv)
\*     a server that moved to a LOWER tip (MONO = FALSE: the ledger was handed to a lagging server) leaves the ledger with
\*     the server's chain or a continuation of it that was announced before
ConvergedLagging == (Quiescent /\ lastNote = srv /\ outcome = "return") => IsPrefix(Chain(srv), local)
\* (4) update_headers ends: the rewind counter stays below R, a failed update is a reorganisation at least R deep,
\*     rewinding never passes genesis, and while the server stands still an update sends a bounded number of requests
RoundsBound == Min(R, MAXH + 1) + ((MAXH + CHUNK) \div CHUNK) + 1
RewindBounded == /\ \A i \in 1..Len(tasks) : tasks[i].rewound < R /\ tasks[i].height >= -1
                 /\ maxRounds <= RoundsBound
                 /\ outcome # "genesis"
RaiseOnlyDeep == outcome = "deep" => raiseDepth >= R
\* (5) the header lock: connect() is never attempted beyond the end of the local chain
NoGap == outcome # "gap"
TypeOK == /\ srv \in Tips /\ announced \subseteq Tips /\ notes \subseteq announced
          /\ \A i \in 1..Len(tasks) : tasks[i].pc \in {"new", "wait"} /\ (tasks[i].pc = "wait" => tasks[i].height <= Len(local) \/ ~LOCK)

\* ------------------------------------------------------------------ reachability witnesses (each must be VIOLATED)
W_Quiescent       == ~(Quiescent /\ lastNote = srv /\ outcome = "return" /\ moves >= 2 /\ Len(local) >= 3)
W_DeepReorg       == ~(act[1] = "Reply" /\ act[5] > 0 /\ act[6] >= 2)                       \* rewound >= 2, then connected
W_ReorgDuringReply == ~(act[1] = "Reply" /\ act[7] /\ act[4] > 0 /\ act[5] = 0)             \* the reply came from another chain than announced
W_ReorgDuringReplyFollowed == ~(act[1] = "Reply" /\ act[7] /\ act[5] > 0 /\ act[6] > 0)
W_FarAhead        == ~(act[1] = "Start" /\ act[2] = "note" /\ act[5] /\ act[4] > Len(local) + 1)
W_Shortcut        == ~(act[1] = "Start" /\ act[2] = "note" /\ ~act[5] /\ act[6] > 0 /\ act[4] = Len(local) - 1 /\ outcome = "return")
W_LateSame        == ~(act[1] = "Start" /\ act[2] = "note" /\ act[6] > 0 /\ act[4] < Len(local) - 1)   \* an old header of the same chain, again
W_DroppedStale    == ~(act[1] = "Reply" /\ act[8] > 0)
W_TooDeep         == outcome # "deep"
W_Stuck           == ~(Quiescent /\ lastNote = srv /\ outcome = "deep")
W_MultiBatch      == ~(act[1] = "Reply" /\ act[5] = CHUNK /\ act[6] = 0 /\ maxRounds >= 3)
W_LockQueue       == ~(Len(tasks) >= 3)
\* the deviation the code has by construction: a LATE notification for the first header of an abandoned branch links
\* below the fork and takes the ledger back to that branch (it follows the announcement processed last)
W_SteppedBack     == ~(act[1] = "Start" /\ act[2] = "note" /\ act[7] > 0 /\ ~IsPrefix(local, Chain(srv)))
W_RivalAtStart    == ~(Quiescent /\ moves = 0 /\ outcome = "return" /\ local # <<>> /\ ~IsPrefix(local, Chain(srv)) /\ ~IsPrefix(Chain(srv), local))
W_OffBestAtRest   == ~(Quiescent /\ outcome = "return" /\ ~IsPrefix(local, Chain(srv)) /\ lost = 0)

\* all witnesses in ONE run (one worker): Mark is a CONSTRAINT that is always TRUE and notes which witnesses were seen,
\* WitnessReport is the POSTCONDITION that prints them
WitnessList == <<W_Quiescent, W_DeepReorg, W_ReorgDuringReply, W_ReorgDuringReplyFollowed, W_FarAhead, W_Shortcut, W_LateSame,
                 W_DroppedStale, W_TooDeep, W_Stuck, W_MultiBatch, W_LockQueue, W_RivalAtStart, W_SteppedBack, W_OffBestAtRest>>
NW == 15
Mark == \A k \in 1..NW : WitnessList[k] \/ TLCSet(100 + k, 1)
WitnessReport == TLCGet("stats").diameter >= 0
                 /\ PrintT(<<"WITNESSES", [k \in 1..NW |-> TLCGetOrDefault(100 + k, 0)]>>)
=============================================================================
