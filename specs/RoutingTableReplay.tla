-------------------------- MODULE RoutingTableReplay --------------------------
(* Exact conformance of RoutingTable.tla's ALGORITHM with the real TreeRoutingTable (spec drift detection, C11 Leg B).
   The real table (K = 8) is driven with contact ids whose distance to the own id is d * 2^(384-B), d in 1..2^B-1, so
   every range bound the real code computes is a multiple of 2^(384-B) and the whole structure is logged EXACTLY in
   model units.  For every call the driver also logs what the eviction rule consulted (ng: contacts of the table that
   are bad/unknown and have not replied within 60 s; hr: did the head of the full bucket reply within 60 s; ok: did the
   probe get an answer).  TLC re-executes AddCore / Remove on the model state and compares with the logged structure.
   A difference is DRIFT (the algorithm model no longer describes the code), not a violation of the property. *)
EXTENDS RoutingTable, Json, IOUtils, TLCExt
VARIABLES tid, l
TraceLog == JsonDeserialize(IOEnv.TRACE_FILE)
T == TraceLog[tid]
ToSet(q) == {q[i] : i \in DOMAIN q}
rvars == <<vars, tid, l>>
RInit == /\ tid \in 1..Len(TraceLog) /\ l = 1
         /\ buckets = << [min |-> 0, max |-> N, peers |-> <<>>] >>
         /\ err = FALSE /\ okLive = TRUE /\ okCloser = TRUE /\ tag = {}
E == T.ev[l]
RAdd == /\ l <= Len(T.ev) /\ E.event = "Add" /\ l' = l + 1 /\ tid' = tid
        /\ LET r == AddCore(buckets, E.p, ToSet(E.ng), E.hr, E.ok) IN
             /\ IF r.bs = E.post /\ r.res = E.res /\ r.err = E.raised THEN TRUE ELSE TLCSet(100000 + tid, l)
             /\ buckets' = E.post /\ err' = E.raised            \* resynchronise on the real state
        /\ UNCHANGED <<okLive, okCloser, tag>>
RRemove == /\ l <= Len(T.ev) /\ E.event = "Remove" /\ l' = l + 1 /\ tid' = tid
           /\ LET i == Index(buckets, E.p.d)
                  nb == IF E.p \in Known /\ i <= Len(buckets) THEN Join([buckets EXCEPT ![i].peers = Without(@, {E.p})]) ELSE buckets IN
                /\ IF nb = E.post THEN TRUE ELSE TLCSet(100000 + tid, l)
                /\ buckets' = E.post /\ err' = E.raised
           /\ UNCHANGED <<okLive, okCloser, tag>>
RNext == RAdd \/ RRemove
RSpec == RInit /\ [][RNext]_rvars
Reached == TLCSet(tid, IF TLCGetOrDefault(tid, 1) > l THEN TLCGetOrDefault(tid, 1) ELSE l)
Report == TLCGet("stats").diameter >= 0 /\ \A t \in 1..Len(TraceLog) :
            /\ PrintT(<<"TRACE", t, IF TLCGetOrDefault(t, 1) - 1 = Len(TraceLog[t].ev) THEN "accepted" ELSE "rejected", TLCGetOrDefault(t, 1) - 1, Len(TraceLog[t].ev)>>)
            /\ (TLCGetOrDefault(100000 + t, 0) > 0 => PrintT(<<"DRIFT", t>>))
=============================================================================
