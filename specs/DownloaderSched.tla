--------------------------- MODULE DownloaderSched ---------------------------
(* G04, Leg B -- the complete space of small peer schedules for the real BlobDownloader, enumerated by TLC as initial
   states and printed as JSON cases (the pattern of Dewies.tla).  A schedule gives, per peer, its kind (Downloader!Kinds),
   the tick at which it is put into peer_queue (peer 1 at tick 0; ticks of 250 ms), how many ticks it takes to accept a
   connection and to answer a request, plus the cap (max_connections_per_download), whether the blob's length is known,
   and an optional early close() / cancellation.  `verified` is what the liveness clause Completes of Downloader.tla
   promises for the schedule: the blob is delivered iff an honest holder is among the peers, nobody stops the download,
   and no wrong-length reply can stick on a blob of unknown length.  The driver replays every schedule on the real
   downloader (scripted peers with exactly these delays), compares `verified`, and has the recorded run judged by
   DownloaderTrace.tla (state of the real object against the specification's state at every event). *)
EXTENDS Naturals, Sequences, FiniteSets, TLC, Json
CONSTANTS NP, KINDS, ARRIVE, DELAY, CAPS, LENS, STOPS      \* STOPS: subset of {"none", "close", "cancel"}
VARIABLE s
Peers == 1..NP
Key(c, p) == <<c.arrive[p], c.delay[p]>>
Init == /\ s \in [kind : [Peers -> KINDS], arrive : [Peers -> ARRIVE], delay : [Peers -> DELAY], cap : CAPS,
                  lenknown : LENS, stop : STOPS, stopat : {3}]
        /\ s.arrive[1] = 0
        /\ \A p \in Peers : p > 2 => s.arrive[p] >= s.arrive[p - 1]        \* peers 2.. in arrival order (same schedules otherwise)
Next == UNCHANGED s
Spec == Init /\ [][Next]_s
Liar == ~s.lenknown /\ \E p \in Peers : s.kind[p] = "wronglen"
Verified == (\E p \in Peers : s.kind[p] = "honest") /\ s.stop = "none" /\ ~Liar
NoVerdict == s.stop # "none" \/ Liar          \* completion is a race then: not predicted
Case == [kind |-> s.kind, arrive |-> s.arrive, delay |-> s.delay, cap |-> s.cap, lenknown |-> s.lenknown, stop |-> s.stop,
         stopat |-> s.stopat, verified |-> Verified, predicted |-> ~NoVerdict]
Emit == PrintT(<<"CASE", ToJson(Case)>>)
\* laws on the case space itself
HolderDecides == (Verified /\ ~NoVerdict) => \E p \in Peers : s.kind[p] = "honest"
=============================================================================
