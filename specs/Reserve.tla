------------------------------- MODULE Reserve -------------------------------
(* C14 -- concurrent Transaction.create builds sharing one ledger.
   Ledger.get_spendable_utxos:  acquire _utxo_reservation_lock (asyncio.Lock, FIFO);
     read-select-reserve strategies: read the unreserved unspent outputs (one database job), select in memory,
                                     reserve them (a second database job); release the lock
     sqlite strategy:                select and reserve inside ONE database transaction
   A build may need several rounds (Transaction.create loops up to 5 times).  On any failure release_tx gives back
   what the build holds; a finished build is broadcast (its inputs become spent) or abandoned (released).
   The only scheduling freedom the real system has is WHEN each build request arrives relative to the others'
   progress (AIOSQLite runs one database job at a time) -- Arrive(b). *)
EXTENDS Naturals, Sequences, FiniteSets, TLC
CONSTANTS BUILDERS, UTXOS,
          NEED,        \* outputs a build needs per round
          ROUNDS,      \* rounds per build (1 or 2)
          LOCKED,      \* FALSE = the reservation lock is not taken (model of the broken variant; must violate NoShare)
          SQLITE       \* TRUE = select-and-reserve in one transaction
VARIABLES reserved, spent, lockq, pc, snap, held, round
vars == <<reserved, spent, lockq, pc, snap, held, round>>

Init == /\ reserved = {} /\ spent = {} /\ lockq = <<>> /\ pc = [b \in BUILDERS |-> "idle"]
        /\ snap = [b \in BUILDERS |-> {}] /\ held = [b \in BUILDERS |-> {}] /\ round = [b \in BUILDERS |-> 1]
Holder == IF lockq = <<>> THEN "none" ELSE Head(lockq)
Avail == UTXOS \ (reserved \cup spent)
\* a build request arrives and queues for the lock
Arrive(b) == /\ pc[b] = "idle" /\ pc' = [pc EXCEPT ![b] = "wait"]
             /\ lockq' = IF LOCKED THEN Append(lockq, b) ELSE lockq
             /\ UNCHANGED <<reserved, spent, snap, held, round>>
\* lock acquired: the first database job of the round is submitted
Acquire(b) == /\ pc[b] = "wait" /\ (~LOCKED \/ Holder = b)
              /\ pc' = [pc EXCEPT ![b] = IF SQLITE THEN "sqlite" ELSE "reading"]
              /\ UNCHANGED <<reserved, spent, lockq, snap, held, round>>
\* the read completes: a snapshot of the unspent, unreserved outputs
ReadDone(b) == /\ pc[b] = "reading" /\ snap' = [snap EXCEPT ![b] = Avail]
               /\ pc' = [pc EXCEPT ![b] = "selected"] /\ UNCHANGED <<reserved, spent, lockq, held, round>>
Unlock(q) == IF LOCKED THEN Tail(q) ELSE q
After(b) == IF round[b] < ROUNDS THEN "wait" ELSE "built"
\* select in memory + reserve (database write completes), then release the lock; or not enough -> failure
ReserveDone(b) ==
  /\ pc[b] = "selected"
  /\ \/ \E S \in SUBSET snap[b] : /\ Cardinality(S) = NEED
                                   /\ reserved' = reserved \cup S /\ held' = [held EXCEPT ![b] = @ \cup S]
                                   /\ pc' = [pc EXCEPT ![b] = After(b)]
                                   /\ round' = [round EXCEPT ![b] = IF @ < ROUNDS THEN @ + 1 ELSE @]
                                   /\ lockq' = IF LOCKED /\ After(b) = "wait" THEN Append(Unlock(lockq), b) ELSE Unlock(lockq)
     \/ /\ Cardinality(snap[b]) < NEED /\ pc' = [pc EXCEPT ![b] = "failed"] /\ lockq' = Unlock(lockq)
        /\ UNCHANGED <<reserved, held, round>>
  /\ UNCHANGED <<spent, snap>>
SqliteDone(b) ==
  /\ pc[b] = "sqlite"
  /\ \/ \E S \in SUBSET Avail : /\ Cardinality(S) = NEED /\ reserved' = reserved \cup S
                                 /\ held' = [held EXCEPT ![b] = @ \cup S] /\ pc' = [pc EXCEPT ![b] = After(b)]
                                 /\ round' = [round EXCEPT ![b] = IF @ < ROUNDS THEN @ + 1 ELSE @]
                                 /\ lockq' = IF LOCKED /\ After(b) = "wait" THEN Append(Unlock(lockq), b) ELSE Unlock(lockq)
     \/ /\ Cardinality(Avail) < NEED /\ pc' = [pc EXCEPT ![b] = "failed"] /\ lockq' = Unlock(lockq)
        /\ UNCHANGED <<reserved, held, round>>
  /\ UNCHANGED <<spent, snap>>
\* the except-branch of create(): release_tx
FailRelease(b) == /\ pc[b] = "failed" /\ reserved' = reserved \ held[b] /\ held' = [held EXCEPT ![b] = {}]
                  /\ pc' = [pc EXCEPT ![b] = "done"] /\ UNCHANGED <<spent, lockq, snap, round>>
Broadcast(b) == /\ pc[b] = "built" /\ spent' = spent \cup held[b] /\ reserved' = reserved \ held[b]
                /\ pc' = [pc EXCEPT ![b] = "done"] /\ UNCHANGED <<lockq, snap, held, round>>
Abandon(b) == /\ pc[b] = "built" /\ reserved' = reserved \ held[b] /\ held' = [held EXCEPT ![b] = {}]
              /\ pc' = [pc EXCEPT ![b] = "done"] /\ UNCHANGED <<spent, lockq, snap, round>>
Next == \E b \in BUILDERS : Arrive(b) \/ Acquire(b) \/ ReadDone(b) \/ ReserveDone(b) \/ SqliteDone(b)
                               \/ FailRelease(b) \/ Broadcast(b) \/ Abandon(b)
Spec == Init /\ [][Next]_vars

\* ------------------------------------------------------------------ the property
NoShare == \A a, b \in BUILDERS : a # b => held[a] \cap held[b] = {}
\* an output stays unavailable to others until its transaction is broadcast or abandoned
HeldUnavailable == \A b \in BUILDERS : pc[b] \in {"wait", "reading", "selected", "sqlite", "built", "failed"} => held[b] \subseteq reserved
SnapshotClean == [][\A b \in BUILDERS : pc'[b] = "selected" /\ pc[b] = "reading" =>
                       \A a \in BUILDERS \ {b} : snap'[b] \cap held[a] = {}]_vars
AllDone == \A b \in BUILDERS : pc[b] = "done"
AllAvailableAtEnd == AllDone => reserved = {}
W_AllDone == ~AllDone
W_Contention == ~(\E a, b \in BUILDERS : a # b /\ pc[a] = "built" /\ pc[b] = "failed")
=============================================================================
