----------------------------- MODULE MCBlobServer -----------------------------
EXTENDS BlobServer
Units == {"R", "R1", "R2", "Rn", "Xb", "X", "Jn", "Big"}
RECURSIVE SeqsUpTo(_)
SeqsUpTo(n) == IF n = 0 THEN {<<>>} ELSE LET r == SeqsUpTo(n - 1) IN r \cup {Append(s, u) : s \in {x \in r : Len(x) = n - 1}, u \in Units}
AllStreams == SeqsUpTo(5)
===============================================================================
