------------------------------ MODULE RangeStream ------------------------------
(* G07 -- streaming a byte range of a stream: ManagedStream.stream_file.

   One behaviour = one HTTP range request served by ONE call of stream_file on a stream whose blobs are local
   (the only blob that may be absent is the scripted `miss`); optionally ANOTHER request on the same ManagedStream is
   being served meanwhile (rq.others = 1: registered in streaming_responses, its client not reading), which is what
   `if not self.streaming_responses: self.streaming.clear()` and the loop of stop_tasks exist for.  The module transcribes, in the constants CAP (plaintext
   capacity of a blob = MAX_BLOB_SIZE - 1) and BLOCK (AES block, PKCS7), so that the same formulas run scaled
   (CAP=7, BLOCK=4: every file size and every range) and with the real 2097151 / 16 (boundary classes, emitted and
   replayed on the real code):

     descriptor.py        file_reader / create_stream: NB, Plain, Cipher = the blob layout; the terminator;
                          lower_bound_decrypted_length / upper_bound_decrypted_length (Lower, Upper)
     managed_stream.py    _prepare_range_response_headers statement by statement (Prepare): the two splits of the
                          header text (at token level), the size estimate sum(length - 1) or the size from the claim
                          (with the plausibility window), int(), the two 416 tests, skip_blobs = start // (MAX - 2),
                          the four headers
                          stream_file: start() (two await points), StreamResponse.prepare, the registration in
                          streaming_responses, _aiter_read_stream (IndexError), the loop with `if not wrote`,
                          decrypted[first_blob_start_offset:] WITH PYTHON'S MEANING OF A NEGATIVE OFFSET, the final-blob
                          test, the NUL padding b'\x00' * n WITH PYTHON'S MEANING OF A NEGATIVE n, write / write_eof,
                          `except ConnectionResetError`, the `finally`; stop_tasks; _delayed_stop (Tick)
     aiohttp StreamWriter (trusted environment, bound by Leg B through the REAL StreamWriter): write() cuts a chunk to
                          the remaining Content-Length (chunk[:length], also for a negative length), write_eof()
                          does NOT; a write of at least one byte to a closing transport raises ConnectionResetError;
                          drain() suspends after a write only for a chunk above LIMIT or the last one.

   Byte strings are sequences of RUNS: [k |-> "f", lo, hi] = the file bytes lo..hi-1, [k |-> "z", lo, hi] = hi-lo
   NUL bytes; so "the body is byte for byte file[start : end + 1]" is an equation between normal forms (Norm) at any scale.

   What the code knowingly or accidentally does differently from the statement (switch = as found / as stated):
     D1 DIVOFF = 1 / 0     skip_blobs = start // (MAX_BLOB_SIZE - 2) ("-2 because ... dont remember"): for a start in
                           the k bytes below blob boundary k the first blob is k, not k-1, the offset is NEGATIVE and
                           the last bytes of the wrong blob are served (or IndexError after the 206 if blob k is the
                           terminator).                                                        (class D1, InWindow)
     D2 CLAMP = FALSE/TRUE a last-byte-pos >= size is answered 416 instead of being clamped (RFC 7233 2.1).  (D2, EndBeyond)
     D3 ORDERCHK = F / T   first-byte-pos > last-byte-pos is not tested: 206 with Content-Length <= 0.  (D3, Reversed)
     D4 EOFTRUNC = F / T   the final write_eof(chunk) is not cut to Content-Length: every bounded request (and every
                           request with an offset inside its first blob) is followed by stray bytes, up to a whole
                           blob plus `offset` NULs.  A client that frames by Content-Length reads the right body; the
                           connection is closed afterwards (force_close).  Law NoExcess; NOTE, not a finding.
     D5 (no switch)        the loop never stops early: `bytes=0-1` decrypts (downloads) every blob to the end.
                           Law NoWastedReads; NOTE.
     D6 (no switch)        bytes in [real size, reported size) are NUL padding (the estimate is Upper - 1; upstream
                           tests fix this behaviour).  Restated in BodyIsSlice (Slice pads).
     D7 (no switch)        a malformed / unsupported header (suffix range, several ranges, junk) raises ValueError
                           (HTTP 500 in the daemon) before anything is sent; a lenient one (no unit, any unit name,
                           blanks, "+3", text after a second "=") is served.  Laws: UnreadableRefused, RefusalsClean, the 206 laws.
     D8 (no switch)        a cancellation inside start() (before the delayed-stop task exists) leaves _running set:
                           the stream is never stopped by inactivity.  Outside "mid-body"; law QuietStopped; NOTE. *)
EXTENDS Integers, Sequences, FiniteSets, TLC, TLCExt, Json

CONSTANTS CAP, BLOCK,  \* MAX_BLOB_SIZE - 1, AES block size in bytes; CAP + 1 is a multiple of BLOCK
          LIMIT,       \* aiohttp StreamWriter: drain after a non-final write only above this many bytes
          CASESET,     \* "all" | "boundary" | "syntax" | "cuts" | "free"
          MAXK,        \* file sizes up to MAXK * CAP (+ a little)
          CLAIMS,      \* TRUE: also claims that carry a stream size (honest, lying within the window, implausible)
          STRLEN,      \* "syntax": every token string up to this length
          DIVOFF, CLAMP, ORDERCHK, EOFTRUNC,     \* see D1..D4
          CLEARALWAYS, \* FALSE as found; TRUE = negative control: the `finally` clears `streaming` without looking at the list
          EMIT

VARIABLES rq,    \* the case: [fsize, claim, hdr, a, b, cut, miss, others]  (never changes)
          pc,    \* "hdr" "start" "start2" "prep" "iter" "read" "write" "drain" "next" "done"
          hd,    \* what _prepare_range_response_headers returned
          lp,    \* loop state of stream_file and of the payload writer
          wire,  \* body bytes handed to the transport after the header block (runs)
          out,   \* how stream_file ended
          ev,    \* the rest of the world: transport, streaming_responses, events, the delayed-stop task
          cl     \* how the STATEMENT reads the request (Classify(rq); computed once, never changes)
vars == <<rq, pc, hd, lp, wire, out, ev, cl>>

\* ================================================================== byte strings as runs
F(lo, hi) == [k |-> "f", lo |-> lo, hi |-> hi]
Z(m) == [k |-> "z", lo |-> 0, hi |-> m]
RLen(r) == r.hi - r.lo
RECURSIVE BLen(_)
BLen(s) == IF s = <<>> THEN 0 ELSE RLen(Head(s)) + BLen(Tail(s))
RECURSIVE Drop(_, _)
Drop(s, m) == IF s = <<>> \/ m <= 0 THEN s
              ELSE IF RLen(Head(s)) <= m THEN Drop(Tail(s), m - RLen(Head(s)))
              ELSE <<[Head(s) EXCEPT !.lo = @ + m]>> \o Tail(s)
RECURSIVE Take(_, _)
Take(s, m) == IF s = <<>> \/ m <= 0 THEN <<>>
              ELSE IF RLen(Head(s)) <= m THEN <<Head(s)>> \o Take(Tail(s), m - RLen(Head(s)))
              ELSE <<[Head(s) EXCEPT !.hi = Head(s).lo + m]>>
PyFrom(s, o) == IF o >= 0 THEN Drop(s, o) ELSE Drop(s, BLen(s) + o)      \* bytes[o:]
PyTo(s, m) == IF m >= 0 THEN Take(s, m) ELSE Take(s, BLen(s) + m)        \* bytes[:m]
Zeros(m) == IF m > 0 THEN <<Z(m)>> ELSE <<>>                             \* b'\x00' * m
RECURSIVE Norm(_)
Norm(s) == IF s = <<>> THEN <<>>
           ELSE LET r == Head(s)  t == Norm(Tail(s)) IN
                IF RLen(r) <= 0 THEN t
                ELSE LET r0 == IF r.k = "z" THEN Z(RLen(r)) ELSE r IN
                     IF t = <<>> THEN <<r0>>
                     ELSE LET u == Head(t) IN
                          IF r0.k = "z" /\ u.k = "z" THEN <<Z(r0.hi + u.hi)>> \o Tail(t)
                          ELSE IF r0.k = "f" /\ u.k = "f" /\ r0.hi = u.lo THEN <<F(r0.lo, u.hi)>> \o Tail(t)
                          ELSE <<r0>> \o t
Min(x, y) == IF x < y THEN x ELSE y
Max(x, y) == IF x > y THEN x ELSE y

\* ================================================================== the blob layout (descriptor.py)
NB(n) == (n + CAP - 1) \div CAP                                   \* content blobs; the terminator follows
Plain(n, k) == IF k < NB(n) - 1 THEN CAP ELSE n - k * CAP         \* file_reader: min(length - offset, MAX_BLOB_SIZE - 1)
Cipher(p) == BLOCK * (p \div BLOCK + 1)                           \* PKCS7: always at least one byte of padding
BlobLen(n, k) == Cipher(Plain(n, k))                              \* 'length' of blob k in the descriptor
RECURSIVE SumLenM1(_, _)
SumLenM1(n, m) == IF m = 0 THEN 0 ELSE SumLenM1(n, m - 1) + BlobLen(n, m - 1) - 1
Est(n) == SumLenM1(n, NB(n))                                      \* for blob in blobs[:-1]: size += blob.length - 1
Lower(n) == SumLenM1(n, NB(n) - 1) + BlobLen(n, NB(n) - 1) - BLOCK    \* lower_bound_decrypted_length (n >= 1)
Upper(n) == Lower(n) + BLOCK                                          \* upper_bound_decrypted_length
BlobPlain(n, k) == <<F(k * CAP, k * CAP + Plain(n, k))>>          \* what decrypt_blob returns for blob k
\* the file bytes lo..hi-1 as the statement reads them: NUL beyond the real end
Slice(n, lo, hi) == Norm(<<F(Min(lo, n), Min(hi, n)), Z(hi - Max(lo, n))>>)

\* ================================================================== the Range header as tokens
\* tokens: "bytes" "=" "-" "," "sp" "x" "+", the digits, and "A" / "B" = the decimal text of rq.a / rq.b
DIGITS == <<"0", "1", "2", "3", "4", "5", "6", "7", "8", "9">>
IsDigit(t) == \E d \in 1..10 : DIGITS[d] = t
DigitVal(t) == (CHOOSE d \in 1..10 : DIGITS[d] = t) - 1
RECURSIVE DigitsVal(_, _)
DigitsVal(u, acc) == IF u = <<>> THEN acc ELSE DigitsVal(Tail(u), acc * 10 + DigitVal(Head(u)))
HasTok(h, t) == \E p \in 1..Len(h) : h[p] = t
RECURSIVE SplitOn(_, _)                                            \* str.split(t)
SplitOn(s, t) == IF s = <<>> THEN << <<>> >>
                 ELSE LET r == SplitOn(Tail(s), t) IN
                      IF Head(s) = t THEN << <<>> >> \o r ELSE << <<Head(s)>> \o Head(r) >> \o Tail(r)
RECURSIVE StripL(_)
StripL(u) == IF u # <<>> /\ Head(u) = "sp" THEN StripL(Tail(u)) ELSE u
Rev(u) == [p \in 1..Len(u) |-> u[Len(u) + 1 - p]]
Strip(u) == Rev(StripL(Rev(StripL(u))))
Unsigned(u) == IF u # <<>> /\ Head(u) = "+" THEN Tail(u) ELSE u
NumRun(u) == u # <<>> /\ (u = <<"A">> \/ u = <<"B">> \/ \A p \in 1..Len(u) : IsDigit(u[p]))
NumVal(u, q) == IF u = <<"A">> THEN q.a ELSE IF u = <<"B">> THEN q.b ELSE DigitsVal(u, 0)
IsInt(t) == NumRun(Unsigned(Strip(t)))                             \* int(text) does not raise (no "_" in the alphabet)
IntOf(t, q) == NumVal(Unsigned(Strip(t)), q)
EffHdr(h) == IF h = <<"absent">> THEN <<"bytes", "=", "0", "-">> ELSE h     \* request.headers.get('range', 'bytes=0-')

\* ================================================================== _prepare_range_response_headers
Res(r, st, en, sz, sk, fo) == [res |-> r, start |-> st, end |-> en, size |-> sz, clen |-> en - st + 1, skipb |-> sk, foff |-> fo]
Prepare(q) ==
  LET h == EffHdr(q.hdr)
      s1 == IF HasTok(h, "=") THEN SplitOn(h, "=")[2] ELSE h              \* get_range.split('=')[1]
      parts == SplitOn(s1, "-")
      est == Est(q.fsize)
  IN IF Len(parts) # 2 THEN Res("ValueError", 0, 0, 0, 0, 0)              \* start, end = get_range.split('-')
     ELSE IF q.claim > 0 /\ ~(q.claim <= est /\ est <= q.claim + BLOCK)
          THEN Res("ValueError", 0, 0, 0, 0, 0)                           \* "claim contains implausible stream size"
     ELSE LET size == IF q.claim > 0 THEN q.claim ELSE est IN
          IF ~IsInt(parts[1]) THEN Res("ValueError", 0, 0, size, 0, 0)    \* int(start)
          ELSE LET start == IntOf(parts[1], q) IN
               IF ~(0 <= start /\ start < size) THEN Res("416", start, 0, size, 0, 0)
               ELSE IF parts[2] # <<>> /\ ~IsInt(parts[2]) THEN Res("ValueError", start, 0, size, 0, 0)
               ELSE LET end0 == IF parts[2] = <<>> THEN size - 1 ELSE IntOf(parts[2], q)
                        end == IF CLAMP /\ end0 >= size THEN size - 1 ELSE end0
                    IN IF end >= size THEN Res("416", start, end, size, 0, 0)
                       ELSE IF ORDERCHK /\ end < start THEN Res("416", start, end, size, 0, 0)
                       ELSE LET skipb == start \div (CAP - DIVOFF)        \* -2 because ... dont remember
                                skip == skipb * CAP                       \* -1 because
                            IN Res("ok", start, end, size, skipb, start - skip)

\* ================================================================== how the statement reads the request
\* well formed = absent | bytes=N- | bytes=N-M (RFC 7233 with one range, no suffix form)
DashPos(h) == {p \in 1..Len(h) : h[p] = "-"}
WF(h0) == LET h == EffHdr(h0) IN
          /\ Len(h) >= 4 /\ h[1] = "bytes" /\ h[2] = "=" /\ Cardinality(DashPos(h)) = 1
          /\ LET p == CHOOSE x \in DashPos(h) : TRUE IN
               /\ p >= 4 /\ NumRun(SubSeq(h, 3, p - 1))
               /\ (p = Len(h) \/ NumRun(SubSeq(h, p + 1, Len(h))))
\* the numbers the CODE reads out of the text (for a well-formed header these are the numbers of the grammar)
LP(q) == LET h == EffHdr(q.hdr)
             s1 == IF HasTok(h, "=") THEN SplitOn(h, "=")[2] ELSE h
             parts == SplitOn(s1, "-")
             ok == Len(parts) = 2 /\ IsInt(parts[1]) /\ (parts[2] = <<>> \/ IsInt(parts[2]))
         IN [ok |-> ok,
             pa |-> IF ok THEN IntOf(parts[1], q) ELSE 0,
             hasb |-> ok /\ parts[2] # <<>>,
             pb |-> IF ok /\ parts[2] # <<>> THEN IntOf(parts[2], q) ELSE 0]
Plausible(q) == q.claim = 0 \/ (q.claim <= Est(q.fsize) /\ Est(q.fsize) <= q.claim + BLOCK)
SizeRep(q) == IF q.claim > 0 THEN q.claim ELSE Est(q.fsize)         \* the size the answer reports
\* the request as the statement classifies it; the deviation classes D1..D3 are stated on the request alone
Classify(q) ==
  LET l == LP(q)
      sz == SizeRep(q)
      rd == l.ok /\ Plausible(q)                                      \* readable
      un == rd /\ (l.pa >= sz \/ (l.hasb /\ l.pb < l.pa))             \* unsatisfiable: start >= size or start > end
      sa == rd /\ ~un                                                 \* satisfiable
      inw == sa /\ (~l.hasb \/ l.pb < sz) /\ l.pa \div (CAP - 1) # l.pa \div CAP     \* D1: start in the window below a blob boundary
      endb == sa /\ l.hasb /\ l.pb >= sz                              \* D2: last-byte-pos beyond the reported size
      rev == rd /\ l.pa < sz /\ l.hasb /\ l.pb < l.pa                 \* D3: first-byte-pos after last-byte-pos
  IN [wf |-> WF(q.hdr), ok |-> l.ok, pa |-> l.pa, hasb |-> l.hasb, pb |-> l.pb,
      readable |-> rd, sat |-> sa, unsat |-> un, size |-> sz,
      wantend |-> IF ~sa THEN 0 ELSE IF ~l.hasb \/ l.pb >= sz THEN sz - 1 ELSE l.pb,
      dev |-> IF inw THEN "D1" ELSE IF endb THEN "D2" ELSE IF rev THEN "D3" ELSE ""]
\* blobs that overlap the answered range (for NoWastedReads)
Needed(s, e) == e \div CAP - s \div CAP + 1

\* ================================================================== the cases (initial states)
NoCut == [mode |-> "none", pt |-> "none", at |-> 0]
Case(n, c, h, x, y, cu, mi) == [fsize |-> n, claim |-> c, hdr |-> h, a |-> x, b |-> y, cut |-> cu, miss |-> mi, others |-> 0]
WithOther(q) == [q EXCEPT !.others = 1]      \* another request on the same stream is being served (registered, suspended in drain)
FormHdr(f) == CASE f = "absent" -> <<"absent">>
                [] f = "open" -> <<"bytes", "=", "A", "-">>
                [] f = "closed" -> <<"bytes", "=", "A", "-", "B">>
                [] f = "open0" -> <<"A", "-">>
                [] f = "closed0" -> <<"A", "-", "B">>
HasA(f) == f # "absent"
HasB(f) == f \in {"closed", "closed0"}
ClaimSet(n) == IF CLAIMS /\ n >= 1 THEN {0} \cup {c \in (Est(n) - BLOCK - 1)..(Est(n) + 1) : c >= 1} ELSE {0}

\* "all": every size, every range (scaled constants only)
MaxSize == MAXK * CAP + 2
Nums == 0..(MaxSize + BLOCK + 1)
InitAll == \E n \in 0..MaxSize, f \in {"absent", "open", "closed", "open0", "closed0"} :
           \E c \in ClaimSet(n) :
           \E x \in (IF HasA(f) THEN Nums ELSE {0}) :
           \E y \in (IF HasB(f) THEN Nums ELSE {0}) :
              rq = Case(n, c, FormHdr(f), x, y, NoCut, -1)

\* "boundary": sizes around multiples of CAP and around the block size, starts and ends around every boundary the
\* arithmetic knows (blob boundary, the window below it, real size, reported size); meant for the real constants
Pm(s) == s \cup {0 - d : d \in s}
Deltas == Pm({0, 1, 2, BLOCK - 1, BLOCK, BLOCK + 1})
BSizes == {s \in {k * CAP + d : k \in 0..MAXK, d \in Deltas} \cup {BLOCK \div 2, 3 * BLOCK + 1} : s >= 1}
BStarts(n, sz) == {x \in {0, 1, n - 1, n, n + 1, sz - 1, sz, sz + 1, sz + CAP}
                         \cup UNION {{j * CAP - j - 1, j * CAP - j, j * CAP - 1, j * CAP, j * CAP + 1} : j \in 1..(NB(n) + 1)} : x >= 0}
BEnds(n, sz, x) == {y \in {0, x - 1, x, x + 1, n - 1, n, sz - 2, sz - 1, sz, sz + CAP,
                           (x \div CAP + 1) * CAP - 1, (x \div CAP + 1) * CAP, (x \div CAP + 2) * CAP} : y >= 0}
BClaims(n) == IF CLAIMS THEN {0, n} \cup {c \in {n - 1, n + 1, Est(n) - BLOCK - 1, Est(n) + 1} : c >= 1} ELSE {0}
InitBoundary ==
  \E n \in BSizes : \E c \in BClaims(n) :
     LET sz == IF c > 0 /\ c <= Est(n) /\ Est(n) <= c + BLOCK THEN c ELSE Est(n)
         full == c \in {0, n}                   \* the lying and the implausible claims get a few ranges only
     IN \/ rq = Case(n, c, <<"absent">>, 0, 0, NoCut, -1)
        \/ \E x \in BStarts(n, sz) : (full \/ x \in {0, n, sz - 1, sz}) /\ rq = Case(n, c, FormHdr("open"), x, 0, NoCut, -1)
        \/ full /\ \E x \in BStarts(n, sz) : \E y \in BEnds(n, sz, x) : rq = Case(n, c, FormHdr("closed"), x, y, NoCut, -1)
        \/ ~full /\ \E x \in {0, 1} : \E y \in {v \in {n - 1, sz - 1, sz} : v >= 0} : rq = Case(n, c, FormHdr("closed"), x, y, NoCut, -1)

\* "syntax": every token string up to STRLEN, and everything within one edit of the grammar strings
ALPHA == {"bytes", "=", "-", ",", "sp", "x", "+", "0", "3", "7"}
RECURSIVE StrUpTo(_)
StrUpTo(m) == IF m = 0 THEN {<<>>} ELSE LET r == StrUpTo(m - 1) IN r \cup {Append(t, c) : t \in {x \in r : Len(x) = m - 1}, c \in ALPHA}
Bases == {<<"bytes", "=", "3", "-", "7">>, <<"bytes", "=", "3", "-">>, <<"bytes", "=", "-", "7">>, <<"3", "-", "7">>,
          <<"bytes", "=", "0", "-", "3", ",", "7", "-">>, <<"bytes", "=", "7", "-", "3">>, <<"bytes", "=", "3", "7", "-", "7", "7", "7">>}
Insert(t, p, c) == SubSeq(t, 1, p - 1) \o <<c>> \o SubSeq(t, p, Len(t))
Delete(t, p) == SubSeq(t, 1, p - 1) \o SubSeq(t, p + 1, Len(t))
Edits(t) == {t} \cup {Insert(t, p, c) : p \in 1..(Len(t) + 1), c \in ALPHA}
                \cup {[t EXCEPT ![p] = c] : p \in 1..Len(t), c \in ALPHA} \cup {Delete(t, p) : p \in 1..Len(t)}
SyntaxSize == 2 * BLOCK + BLOCK \div 2                            \* one short blob; real constants: 40 bytes, reported 47
InitSyntax == \E h \in StrUpTo(STRLEN) \cup UNION {Edits(t) : t \in Bases} : rq = Case(SyntaxSize, 0, h, 0, 0, NoCut, -1)

\* "cuts": scripted events of the world at the await points (one per behaviour), and one absent blob
CutSizes == {BLOCK + 3, CAP, 2 * CAP, 2 * CAP + BLOCK + 3}
CutRanges(n) == {<<"absent", 0, 0>>, <<"closed", 0, 1>>}
                  \cup (IF n > CAP + 1 THEN {<<"open", CAP + 1, 0>>, <<"closed", 1, CAP + 1>>} ELSE {<<"open", 1, 0>>})
Cuts == {[mode |-> "reset", pt |-> "pre", at |-> 0]} \cup {[mode |-> "reset", pt |-> "wrote", at |-> j] : j \in 0..3}
          \cup {[mode |-> "cancel", pt |-> p, at |-> 0] : p \in {"start", "start2"}}
          \cup {[mode |-> m, pt |-> p, at |-> j] : m \in {"cancel", "stop"}, p \in {"read", "drain"}, j \in 0..2}
OtherCuts == {NoCut, [mode |-> "reset", pt |-> "wrote", at |-> 0], [mode |-> "reset", pt |-> "wrote", at |-> 1],
              [mode |-> "cancel", pt |-> "start", at |-> 0], [mode |-> "cancel", pt |-> "drain", at |-> 0], [mode |-> "stop", pt |-> "drain", at |-> 0]}
InitCuts == \E n \in CutSizes : \E r \in CutRanges(n) :
            \/ \E cu \in {c \in Cuts : c.pt # "read"} : rq = Case(n, 0, FormHdr(r[1]), r[2], r[3], cu, -1)
            \/ \E cu \in {c \in Cuts : c.pt = "read"} : rq = Case(n, 0, FormHdr(r[1]), r[2], r[3], cu, cu.at)
            \/ \E mi \in 0..2 : rq = Case(n, 0, FormHdr(r[1]), r[2], r[3], NoCut, mi)        \* nobody has the blob: time-out
            \/ \E cu \in OtherCuts : rq = WithOther(Case(n, 0, FormHdr(r[1]), r[2], r[3], cu, -1))
\* "free": the world acts at any await point, each kind of event at most once
InitFree == \E n \in CutSizes : \E r \in CutRanges(n) : \E mi \in {-1, 1} : \E ot \in BOOLEAN :
               LET q == Case(n, 0, FormHdr(r[1]), r[2], r[3], [mode |-> "free", pt |-> "any", at |-> 0], mi) IN
               rq = IF ot THEN WithOther(q) ELSE q

Init == /\ IF CASESET = "all" THEN InitAll ELSE IF CASESET = "boundary" THEN InitBoundary ELSE IF CASESET = "syntax" THEN InitSyntax
           ELSE IF CASESET = "cuts" THEN InitCuts ELSE InitFree
        /\ cl = Classify(rq)
        /\ pc = "hdr"
        /\ hd = Res("none", 0, 0, 0, 0, 0)
        /\ lp = [i |-> 0, wrote |-> 0, wlen |-> 0, nread |-> 0, tw |-> 0, nd |-> 0, chunk |-> <<>>, hsent |-> FALSE, eof |-> FALSE, final |-> FALSE]
        /\ wire = <<>>
        /\ out = [k |-> "none", exc |-> ""]
        /\ ev = [closing |-> FALSE, reg |-> FALSE, streaming |-> rq.others = 1, running |-> rq.others = 1, dstop |-> rq.others = 1,
                 stall |-> 0, used |-> {}, dlstopped |-> FALSE, instart |-> FALSE,
                 others |-> rq.others]     \* 1: another response is registered; 2: popped by stop_tasks, its call not yet ended

\* ================================================================== stream_file, one action per await point
FS == rq.fsize
\* the `finally` of stream_file: force_close, unregister, clear `streaming` when no response is left (there is one request)
Finally(kind, exc) == /\ out' = [k |-> kind, exc |-> exc]
                      /\ ev' = [ev EXCEPT !.reg = FALSE, !.streaming = (ev.others = 1 /\ ~CLEARALWAYS)]   \* if not self.streaming_responses: clear
                      /\ pc' = "done"
\* an exception outside the try block: nothing was registered
Escape(exc) == /\ out' = [k |-> "raised", exc |-> exc] /\ pc' = "done"

\* scripted event pending right now?
CutHere == /\ rq.cut.mode \in {"reset", "cancel", "stop"} /\ ev.used = {}
           /\ CASE rq.cut.pt = "pre" -> pc = "start"
                [] rq.cut.pt = "start" -> pc = "start2"                 \* suspended in downloader.start(): _running is set
                [] rq.cut.pt = "start2" -> pc = "prep"                  \* suspended in the storage calls: the delayed stop exists
                [] rq.cut.pt = "wrote" -> pc \in {"iter", "read", "drain"} /\ lp.tw = rq.cut.at /\ (pc = "iter" => rq.cut.at = 0)
                [] rq.cut.pt = "read" -> pc = "read" /\ lp.i - hd.skipb = rq.cut.at /\ rq.miss = rq.cut.at
                [] rq.cut.pt = "drain" -> pc = "drain" /\ lp.nd = rq.cut.at + 1
                [] OTHER -> FALSE
Scripted == rq.cut.mode # "free"
Quiet == ~CutHere

Hdr == /\ pc = "hdr" /\ Quiet
       /\ LET r == Prepare(rq) IN
          /\ hd' = r
          /\ IF r.res = "ok" THEN pc' = "start" /\ out' = out ELSE Escape(r.res)
       /\ UNCHANGED <<rq, cl, lp, wire, ev>>
\* start(): self._running.set(); await wait_for(self.downloader.start(), timeout)
StartA == /\ pc = "start" /\ Quiet
          /\ IF ev.running THEN ev' = ev /\ pc' = "prep"                  \* if self._running.is_set(): return
             ELSE ev' = [ev EXCEPT !.running = TRUE, !.instart = TRUE] /\ pc' = "start2"
          /\ UNCHANGED <<rq, cl, hd, lp, wire, out>>
\* ... self.delayed_stop_task = create_task(self._delayed_stop()); await storage ...
StartB == /\ pc = "start2" /\ Quiet
          /\ ev' = [ev EXCEPT !.dstop = TRUE, !.stall = 0, !.instart = FALSE]
          /\ pc' = "prep"
          /\ UNCHANGED <<rq, cl, hd, lp, wire, out>>
\* response.prepare: the header block is written at once; then the response is registered
Prep == /\ pc = "prep" /\ Quiet
        /\ IF ev.closing THEN Escape("ConnectionResetError") /\ UNCHANGED <<lp, ev>>
           ELSE /\ lp' = [lp EXCEPT !.hsent = TRUE, !.wlen = hd.clen]
                /\ ev' = [ev EXCEPT !.reg = TRUE, !.streaming = TRUE]
                /\ pc' = "iter" /\ out' = out
        /\ UNCHANGED <<rq, cl, hd, wire>>
\* _aiter_read_stream(skip_blobs): IndexError when the first blob is the terminator
Iter == /\ pc = "iter" /\ Quiet
        /\ IF hd.skipb >= NB(FS) THEN Finally("raised", "IndexError") /\ lp' = lp
           ELSE lp' = [lp EXCEPT !.i = hd.skipb] /\ pc' = "read" /\ UNCHANGED <<out, ev>>
        /\ UNCHANGED <<rq, cl, hd, wire>>
\* await cached_read_blob(blob_info): a local blob is decrypted at once; an absent one is waited for
Absent == rq.miss >= 0 /\ lp.i - hd.skipb = rq.miss
Read == /\ pc = "read" /\ Quiet /\ ~Absent
        /\ lp' = [lp EXCEPT !.chunk = BlobPlain(FS, lp.i), !.nread = @ + 1]
        /\ pc' = "write"
        /\ UNCHANGED <<rq, cl, hd, wire, out, ev>>
\* nobody delivers the blob: wait_for(..., blob_download_timeout * 10) expires; after downloader.stop() the download
\* loop ends at its next wake-up with an unverified blob and decrypt raises OSError
ReadFails == /\ pc = "read" /\ Quiet /\ Absent
             /\ Finally("raised", IF ev.dlstopped THEN "OSError" ELSE "TimeoutError")
             /\ UNCHANGED <<rq, cl, hd, lp, wire>>
\* the body of the loop up to the await inside write / write_eof
Write ==
  /\ pc = "write" /\ Quiet
  /\ LET d1 == IF lp.wrote = 0 THEN PyFrom(lp.chunk, hd.foff) ELSE lp.chunk                   \* if not wrote: decrypted[offset:]
         final == (lp.i = NB(FS) - 1) \/ (BLen(d1) + lp.wrote >= hd.size)
         d2 == IF final THEN d1 \o Zeros(hd.size - BLen(d1) - lp.wrote - hd.skipb * CAP) ELSE d1
         cutit == ~final \/ EOFTRUNC                                                            \* StreamWriter.write vs write_eof
         sent == IF cutit /\ lp.wlen < BLen(d2) THEN PyTo(d2, lp.wlen) ELSE d2
         left == IF ~cutit THEN lp.wlen ELSE IF lp.wlen >= BLen(d2) THEN lp.wlen - BLen(d2) ELSE 0
         puts == BLen(sent) > 0
         drains == puts /\ (final \/ BLen(sent) > LIMIT)
     IN IF puts /\ ev.closing
        THEN Finally("raised", "CancelledError") /\ UNCHANGED <<lp, wire>>       \* except ConnectionResetError: raise CancelledError
        ELSE /\ wire' = wire \o sent
             /\ lp' = [lp EXCEPT !.wrote = @ + BLen(d2), !.wlen = left, !.tw = @ + (IF puts THEN 1 ELSE 0), !.eof = final,
                                 !.final = final, !.nd = @ + (IF drains THEN 1 ELSE 0), !.chunk = <<>>]
             /\ IF drains THEN pc' = "drain" /\ UNCHANGED <<out, ev>>
                ELSE IF final THEN Finally("returned", "")
                ELSE pc' = "next" /\ UNCHANGED <<out, ev>>
  /\ UNCHANGED <<rq, cl, hd>>
Drained == /\ pc = "drain" /\ Quiet
           /\ IF lp.final THEN Finally("returned", "") ELSE pc' = "next" /\ UNCHANGED <<out, ev>>
           /\ UNCHANGED <<rq, cl, hd, lp, wire>>
NextBlob == /\ pc = "next"
            /\ lp' = [lp EXCEPT !.i = @ + 1] /\ pc' = "read"
            /\ UNCHANGED <<rq, cl, hd, wire, out, ev>>

\* ================================================================== the world
Suspended == pc \in {"start2", "prep", "drain"} \/ (pc = "read" /\ Absent)
InTry == pc \in {"read", "drain"}
\* the client goes away: the transport is closing; a waiter in drain() is woken by connection_lost
Reset == ev' = [ev EXCEPT !.closing = TRUE, !.used = @ \cup {"reset"}] /\ UNCHANGED <<pc, out>>
\* the handler task is cancelled (aiohttp does this when the connection is lost): CancelledError at the await
Cancel == IF InTry THEN /\ out' = [k |-> "raised", exc |-> "CancelledError"]
                        /\ ev' = [ev EXCEPT !.reg = FALSE, !.streaming = (ev.others = 1), !.used = @ \cup {"cancel"}]
                        /\ pc' = "done"
          ELSE /\ out' = [k |-> "raised", exc |-> "CancelledError"] /\ pc' = "done"
               /\ ev' = [ev EXCEPT !.used = @ \cup {"cancel"}]
\* stop_tasks() from another task (file_stop, file_delete, the delayed stop): pops every response, closes its transport,
\* stops the downloader, clears _running
StopTasks == ev' = [ev EXCEPT !.reg = FALSE, !.closing = (@ \/ ev.reg), !.running = FALSE, !.dlstopped = TRUE, !.used = @ \cup {"stop"},
                             !.others = IF @ = 1 THEN 2 ELSE @]
             /\ UNCHANGED <<pc, out>>
Cut == /\ CutHere
       /\ CASE rq.cut.mode = "reset" -> Reset [] rq.cut.mode = "cancel" -> Cancel [] rq.cut.mode = "stop" -> StopTasks
       /\ UNCHANGED <<rq, cl, hd, lp, wire>>
FreeEvent == /\ rq.cut.mode = "free" /\ pc # "done"
             /\ \/ "reset" \notin ev.used /\ pc # "hdr" /\ Reset
                \/ "cancel" \notin ev.used /\ Suspended /\ Cancel
                \/ "stop" \notin ev.used /\ Suspended /\ pc \notin {"start2"} /\ StopTasks
             /\ UNCHANGED <<rq, cl, hd, lp, wire>>
\* _delayed_stop: once a second; two idle looks in a row stop the stream
Tick == /\ ev.dstop /\ (Scripted => pc = "done")
        /\ ev' = IF ~ev.running THEN [ev EXCEPT !.dstop = FALSE]
                 ELSE IF ev.streaming THEN [ev EXCEPT !.stall = 0]
                 ELSE IF ev.stall + 1 > 1 THEN [ev EXCEPT !.running = FALSE, !.dstop = FALSE, !.dlstopped = TRUE, !.stall = 0,
                                                          !.others = IF @ = 1 THEN 2 ELSE @]
                 ELSE [ev EXCEPT !.stall = @ + 1]
        /\ UNCHANGED <<rq, cl, pc, hd, lp, wire, out>>

\* the other request's call of stream_file ends (its own `finally`)
OtherEnds == /\ ev.others > 0 /\ (Scripted => pc = "done")
             /\ ev' = [ev EXCEPT !.others = 0, !.streaming = ev.reg]
             /\ UNCHANGED <<rq, cl, pc, hd, lp, wire, out>>

Next == OtherEnds \/ Hdr \/ StartA \/ StartB \/ Prep \/ Iter \/ Read \/ ReadFails \/ Write \/ Drained \/ NextBlob \/ Cut \/ FreeEvent \/ Tick
Spec == Init /\ [][Next]_vars /\ WF_vars(Next)

\* ================================================================== the laws
Done == pc = "done"
Settled == Done /\ ~ev.dstop /\ ev.others = 0    \* nothing can happen any more
Plain206 == Done /\ rq.cut.mode = "none" /\ rq.miss < 0 /\ rq.others = 0 /\ hd.res = "ok"      \* a request answered 206 that nobody disturbed
Undisturbed == Done /\ rq.cut.mode = "none" /\ rq.miss < 0 /\ rq.others = 0
Body == Take(wire, hd.clen)                        \* what a client that frames by Content-Length reads

\* the layout and the two bounds
LayoutLaw == (pc = "hdr" /\ FS >= 1) =>
               /\ Lower(FS) <= FS /\ FS < Upper(FS) /\ Est(FS) = Upper(FS) - 1
               /\ FS <= Est(FS) /\ Est(FS) - FS <= BLOCK - 1
               /\ \A k \in 0..(NB(FS) - 1) : Plain(FS, k) >= 1 /\ Plain(FS, k) <= CAP /\ BlobLen(FS, k) <= CAP + 1
               /\ Est(FS) <= NB(FS) * CAP
\* the code reads a well-formed header as the grammar does
ParseAgrees == (pc = "hdr" /\ cl.wf) => cl.ok
\* 206: the headers describe a slice of the reported size
HeadersDescribeSlice == (Done /\ hd.res = "ok") => /\ 0 <= hd.start /\ hd.start <= hd.end /\ hd.end < hd.size
                                                   /\ hd.clen = hd.end - hd.start + 1 /\ hd.size = cl.size
\* 206: the body is that slice, byte for byte (NUL beyond the real end), and it is complete
BodyIsSlice == Plain206 => /\ out.k = "returned"
                           /\ BLen(wire) >= hd.clen
                           /\ Norm(Body) = Slice(FS, hd.start, hd.end + 1)
\* nothing of the file beyond its end, nothing at all beyond the reported size
NeverBeyondFile == Done => /\ \A p \in 1..Len(Body) : Body[p].k = "f" => Body[p].hi <= FS
                           /\ (hd.res = "ok" => hd.end < hd.size /\ hd.size <= FS + BLOCK)
\* the answer is the one the request asks for
AnswersRequest == (Undisturbed /\ cl.sat) => hd.res = "ok" /\ hd.start = cl.pa /\ hd.end = cl.wantend
Unsatisfiable416 == (Undisturbed /\ cl.unsat) => out = [k |-> "raised", exc |-> "416"]
\* the estimate never turns away a request that the real file satisfies
EstimateSafe == (Undisturbed /\ cl.readable /\ rq.claim = 0 /\ cl.pa < FS /\ (~cl.hasb \/ cl.pb >= cl.pa))
                   => hd.res = "ok" /\ out.k = "returned"
\* a refusal happens before anything is sent or started
RefusalsClean == (Done /\ out.exc \in {"ValueError", "416"}) => ~lp.hsent /\ wire = <<>> /\ (rq.others = 0 => ~ev.running) /\ ~ev.reg
UnreadableRefused == (Undisturbed /\ ~cl.readable) => out.k = "raised" /\ out.exc \in {"ValueError", "416"}
\* however the call ends, the response is unregistered and `streaming` is clear
CleanEnd == Done => ~ev.reg /\ (ev.others = 0 => ~ev.streaming)    \* others = 2: a popped request is still unwinding and clears it
\* ... while another response is registered the event stays set (the delayed stop must not fire under it)
OthersProtected == ev.others = 1 => ev.streaming /\ ev.running
Registered == ev.reg => pc \in {"iter", "read", "write", "drain", "next"}
\* ... and the stream is stopped once the delayed-stop task is gone
QuietStopped == Settled => ~ev.running
\* the raw laws the code does not meet (negative controls on the as-found model, invariants of the as-stated one)
NoExcess == (Plain206 /\ out.k = "returned") => BLen(wire) = hd.clen
NoWastedReads == Plain206 => lp.nread <= Needed(hd.start, hd.end)

\* as found: every law holds outside the three classes, and each class really breaks its law
StatementLaws == HeadersDescribeSlice /\ BodyIsSlice /\ AnswersRequest /\ Unsatisfiable416 /\ EstimateSafe
AsFound == (Undisturbed /\ cl.dev = "") => StatementLaws
D1Exact == (Undisturbed /\ cl.dev = "D1") => ~BodyIsSlice
D2Exact == (Undisturbed /\ cl.dev = "D2") => ~AnswersRequest /\ out.exc = "416"
D3Exact == (Undisturbed /\ cl.dev = "D3") => ~Unsatisfiable416 /\ ~HeadersDescribeSlice /\ hd.clen <= 0
QuietStoppedAsFound == Settled => (~ev.running \/ (rq.cut.mode \in {"cancel", "free"} /\ out.exc = "CancelledError" /\ ~lp.hsent))
\* liveness (free world): the call ends
Ends == <>[](pc = "done")

\* witnesses (each must be VIOLATED)
W_D1 == ~(Undisturbed /\ cl.dev = "D1")
W_D1Index == ~(Undisturbed /\ cl.dev = "D1" /\ out.exc = "IndexError")
W_D2 == ~(Undisturbed /\ cl.dev = "D2")
W_D3 == ~(Undisturbed /\ cl.dev = "D3")
W_Pad == ~(Plain206 /\ out.k = "returned" /\ \E p \in 1..Len(Body) : Body[p].k = "z")
W_Claim == ~(Plain206 /\ rq.claim > 0 /\ rq.claim # FS)
W_Implausible == ~(Done /\ rq.claim > 0 /\ out.exc = "ValueError" /\ cl.ok)
W_Multi == ~(Plain206 /\ lp.nread >= 2 /\ hd.skipb >= 1 /\ hd.foff > 0)
W_CutReset == ~(Done /\ rq.cut.mode = "reset" /\ out.exc = "CancelledError" /\ lp.tw >= 1)
W_CutStop == ~(Done /\ "stop" \in ev.used /\ out.exc = "OSError")
W_Timeout == ~(Done /\ out.exc = "TimeoutError")
W_Stuck == ~(Settled /\ ev.running)
W_Other == ~(Done /\ ev.others = 1 /\ out.k = "returned")
W_OtherStopped == ~(Done /\ ev.others = 2)

\* one run collects every witness and every refutation: register i is set when predicate i is FALSE in some state
Mark(i, p) == p \/ TLCSet(i, TRUE)
Marks == /\ Mark(101, W_D1) /\ Mark(102, W_D1Index) /\ Mark(103, W_D2) /\ Mark(104, W_D3) /\ Mark(105, W_Pad)
         /\ Mark(106, W_Claim) /\ Mark(107, W_Implausible) /\ Mark(108, W_Multi) /\ Mark(109, W_CutReset)
         /\ Mark(110, W_CutStop) /\ Mark(111, W_Timeout) /\ Mark(112, W_Stuck) /\ Mark(113, W_Other) /\ Mark(114, W_OtherStopped)
         /\ Mark(201, BodyIsSlice) /\ Mark(202, AnswersRequest) /\ Mark(203, Unsatisfiable416) /\ Mark(204, HeadersDescribeSlice)
         /\ Mark(205, EstimateSafe) /\ Mark(206, NoExcess) /\ Mark(207, NoWastedReads) /\ Mark(208, QuietStopped)
MarkIds == (101..114) \cup (201..208)
Post == TLCGet("stats").diameter >= 0 /\ \A i \in MarkIds : PrintT(<<"MARK", i, TLCGetOrDefault(i, FALSE)>>)

\* ================================================================== emission (Leg B): one JSON line per finished case
Want == IF ~cl.readable THEN [kind |-> "unreadable", start |-> 0, end |-> 0, size |-> 0]
        ELSE IF cl.unsat THEN [kind |-> "416", start |-> 0, end |-> 0, size |-> cl.size]
        ELSE [kind |-> "206", start |-> cl.pa, end |-> cl.wantend, size |-> cl.size]
CaseRec == [fsize |-> FS, claim |-> rq.claim, hdr |-> rq.hdr, a |-> rq.a, b |-> rq.b, cut |-> rq.cut, miss |-> rq.miss, others |-> rq.others,
            wf |-> cl.wf, dev |-> cl.dev, want |-> Want,
            wantbody |-> IF Want.kind = "206" THEN Slice(FS, Want.start, Want.end + 1) ELSE <<>>,
            res |-> hd.res, start |-> hd.start, end |-> hd.end, size |-> hd.size, clen |-> hd.clen,
            skipb |-> hd.skipb, foff |-> hd.foff, out |-> out, hsent |-> lp.hsent, wire |-> Norm(wire), body |-> Norm(Body),
            nread |-> lp.nread, needed |-> IF hd.res = "ok" /\ hd.start <= hd.end THEN Needed(hd.start, hd.end) ELSE 0,
            tw |-> lp.tw, nd |-> lp.nd, fired |-> ev.used # {}, reg |-> ev.reg, streaming |-> ev.streaming,
            running |-> ev.running, closing |-> ev.closing, nblobs |-> NB(FS)]
Emit == (EMIT /\ Settled) => PrintT(<<"CASE", ToJson(CaseRec)>>)
=============================================================================
