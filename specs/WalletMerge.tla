---------------------------- MODULE WalletMerge ----------------------------
(* G06 -- wallet synchronisation: Wallet.merge as jsonrpc_sync_apply uses it, Account.merge, TimestampedPreferences.merge,
   Wallet.hash / Account.hash / TimestampedPreferences.hash, pack / unpack.

   Two or three DEVICES each hold a wallet: an ordered list of accounts (the Python list Wallet.accounts) and an ordered
   preference map (the Python dict TimestampedPreferences.data, insertion order kept), an encryption password and a clock.
   A device edits its wallet through the daemon calls that exist for it (one action per call), pushes its packed wallet to
   the sync server (`blob`, the one payload the server keeps) and pulls that payload into its wallet:

     Push(d, p)  = jsonrpc_sync_apply(password = p)              adopt p if encrypt-on-disk, pack
     Pull(d, p)  = jsonrpc_sync_apply(password = p, data = blob)  unpack, Wallet.merge, adopt p, save
     Sync(a, b)  = Push(a, SP) ; Pull(b, SP)                      (the statement's "merging A into B")

   The merge is transcribed FIELD BY FIELD from the code (operators PrefMerge, AccMergeOne, AccsMerge):

     TimestampedPreferences.merge   for every incoming entry in the sender's order: skip it iff the key is held locally and
                                    incoming.ts < local.ts; otherwise the incoming entry object replaces the local one in
                                    place (a new key is appended).  So on EQUAL timestamps the INCOMING value wins.
     Wallet.merge                   for every incoming account in the sender's order: the first local account with the same
                                    id (address of the public key) is merged, otherwise Account.from_dict appends a copy.
                                    An account held locally but absent from the payload is left alone (no tombstones: an
                                    account removed on one device comes back with the next pull).
     Account.merge                  iff incoming.modified_on > local.modified_on: name, modified_on and the gap settings of
                                    the address generator are taken from the payload (ties and older payloads: local kept);
                                    the generator NAME is never carried, it is ASSERTED equal inside that branch, after name
                                    and modified_on have been overwritten: a clash aborts the whole merge half way (named
                                    deviation, `ok = FALSE`: preferences and the accounts before the clashing one are merged,
                                    nothing is saved, the password is not adopted).  Channel keys: dict.update = union,
                                    whatever the timestamps; adding a channel key does not touch modified_on.
     hash                           sha256 over: the encryption password iff encrypt-on-disk is on and a password is held;
                                    json.dumps(preferences.data) WITHOUT sort_keys, so the insertion order of the keys and
                                    the key order inside every {value, ts} entry are part of the hash; the accounts sorted
                                    by id, each with ledger, name, seed, keys, generator name and gaps, modified_on, and the
                                    sorted channel key addresses (not the key material).
     save / restart (Reload)        WalletStorage.write dumps with sort_keys=True: after a restart the preference keys and
                                    the inside of every entry are in sorted order (`srt`), the data is the same.
     save                           with encrypt-on-disk on and no password held, save() switches the preference OFF at the
                                    device's clock (reachable after the aborted merge above, and after the restart of
                                    an encrypted wallet without accounts: nothing is locked, nobody gives the password).

   Clauses (state predicates over HYPOTHETICAL merges from every reachable state, so they need no particular history):
   NoDupNoDrop, AddsExactlyMissing, CarriedFields, PrefLaterWins, Idempotent, Converge, StarConverge, HashSound,
   HashComplete, ConvergeHash, TieRules; action properties EditChangesHash, HashStable, WrongPasswordRefused, PullMonotone.
   The clauses the code does NOT have are kept as *Naive predicates (TLC refutes them, the counterexamples are replayed on
   the real code): ConvergeNaive (equal modified_on with different names / gaps: both sides keep their own for ever),
   HashCompleteNaive and ConvergeHashNaive (equal data, different hash: preference insertion order, restart),
   HashStableNaive (a restart changes the hash of unchanged data), IdempotentNaive (the aborted merge is not idempotent).

   Switches (negative controls): PREFRULE "lt" = code | "le" = ties keep the local value (the statement's wording: TLC
   shows Converge fails with it) | "always"; ACCRULE "gt" = code | "ge" (ties take the payload, as the preferences do:
   ConvergeNaive HOLDS with it where the generators agree -- positive control) | "always" (modified_on ignored);
   KEYRULE "union" = code | "replace" | "skip"; MATCHRULE "id" = code | "never" (every incoming account is added); HASHPREFS "ordered" = code |
   "sorted" (what sort_keys=True would give: the Naive hash clauses hold with it) | "none" (hash ignores preferences). *)
EXTENDS Integers, Sequences, FiniteSets, TLC

CONSTANTS Devices,      \* e.g. {"d1", "d2"}
          AllIds,       \* abstract account ids (= public keys)
          Names,        \* names a rename may choose; Name0 is what a new account gets
          ChanKeys,     \* abstract channel keys
          PrefKeys,     \* preference keys a device may set (EOD is extra)
          Vals,         \* preference values
          Gaps,         \* abstract gap settings (one value stands for the four numbers); Gap0 is the default
          Gens,         \* subset of {"hd", "single"}
          LocalPws,     \* passwords wallet_encrypt may be called with
          SyncPws,      \* passwords sync_apply may be called with
          KeyOrder,     \* all preference keys incl. EOD as a sequence in Python's sorted() order
          MaxClock, MaxOps, MaxAcc,
          Ops,          \* enabled action kinds
          PREFRULE, ACCRULE, KEYRULE, MATCHRULE, HASHPREFS

VARIABLES accs,         \* [Devices -> Seq(account record)]          Wallet.accounts
          prefs,        \* [Devices -> Seq([k, v, ts, srt])]         TimestampedPreferences.data in insertion order
          clock,        \* [Devices -> Nat]                          int(time.time()) of the device
          encpw,        \* [Devices -> "none" | password]            Wallet.encryption_password
          blob,         \* the payload on the sync server
          nops,         \* number of calls so far (bound)
          act           \* the last call (history variable for replay)
vars == <<accs, prefs, clock, encpw, blob, nops, act>>
View == <<accs, prefs, clock, encpw, blob, nops>>

Name0 == "n0"
Gap0 == 0
EOD == "eod"
SP == "P"               \* the password every device of one user syncs with
NoBlob == [full |-> FALSE, pw |-> "none", accs |-> <<>>, prefs |-> <<>>]

Range(q) == {q[i] : i \in DOMAIN q}
Max(a, b) == IF a >= b THEN a ELSE b
IdsOf(q) == {q[i].id : i \in DOMAIN q}
KeysOf(q) == {q[i].k : i \in DOMAIN q}
Count(q, id) == Cardinality({i \in DOMAIN q : q[i].id = id})
\* first position holding the id / key, 0 if none (the for-loop with break in Wallet.merge; dict lookup)
AIndex(q, id) == IF \E i \in DOMAIN q : q[i].id = id
                 THEN CHOOSE i \in DOMAIN q : q[i].id = id /\ \A j \in 1..(i - 1) : q[j].id # id ELSE 0
PIndex(q, k) == IF \E i \in DOMAIN q : q[i].k = k THEN CHOOSE i \in DOMAIN q : q[i].k = k ELSE 0
Acc(q, id) == q[AIndex(q, id)]
Pref(q, k) == q[PIndex(q, k)]
\* TimestampedPreferences.__setitem__: assignment to a held key keeps its position, a new key goes last
PSet(q, k, v, ts) == LET e == [k |-> k, v |-> v, ts |-> ts, srt |-> FALSE] IN
                     IF PIndex(q, k) = 0 THEN Append(q, e) ELSE [q EXCEPT ![PIndex(q, k)] = e]
EodOn(q) == PIndex(q, EOD) # 0 /\ Pref(q, EOD).v = "T"        \* preferences.get(ENCRYPT_ON_DISK, False)
\* Wallet.save() of an unlocked wallet: disk encryption requested but no password -> the preference is reset NOW
SaveFx(q, pw, now) == IF EodOn(q) /\ pw = "none" THEN PSet(q, EOD, "F", now) ELSE q
\* json.dumps(sort_keys=True) then json.loads: keys sorted, the inside of every entry sorted
SortPrefs(q) == LET present == SelectSeq(KeyOrder, LAMBDA k : PIndex(q, k) # 0) IN
                [i \in DOMAIN present |-> [Pref(q, present[i]) EXCEPT !.srt = TRUE]]

-----------------------------------------------------------------------------
(* the merge, transcribed *)

PrefKeeps(its, lts) == CASE PREFRULE = "lt" -> its < lts
                         [] PREFRULE = "le" -> its <= lts
                         [] PREFRULE = "always" -> FALSE
RECURSIVE PrefMerge(_, _)
PrefMerge(loc, inc) ==
    IF inc = <<>> THEN loc
    ELSE LET e == Head(inc)
             i == PIndex(loc, e.k)
             loc1 == IF i = 0 THEN Append(loc, e)
                     ELSE IF PrefKeeps(e.ts, loc[i].ts) THEN loc
                     ELSE [loc EXCEPT ![i] = e]
         IN PrefMerge(loc1, Tail(inc))

AccNewer(imod, lmod) == CASE ACCRULE = "gt" -> imod > lmod
                          [] ACCRULE = "ge" -> imod >= lmod
                          [] ACCRULE = "always" -> TRUE
\* Account.merge(d): returns the account and whether the assertion on the generator name held
AccMergeOne(a, d) ==
    LET newer == AccNewer(d.mod, a.mod)
        clash == newer /\ a.gen # d.gen
        a1 == IF newer THEN [a EXCEPT !.name = d.name, !.mod = d.mod] ELSE a
        a2 == IF newer /\ ~clash /\ a.gen = "hd" THEN [a1 EXCEPT !.gap = d.gap] ELSE a1
        ks == CASE KEYRULE = "union" -> a.keys \cup d.keys
                [] KEYRULE = "replace" -> d.keys
                [] KEYRULE = "skip" -> a.keys
    IN IF clash THEN [acc |-> a1, ok |-> FALSE] ELSE [acc |-> [a2 EXCEPT !.keys = ks], ok |-> TRUE]

RECURSIVE AccsMerge(_, _)
AccsMerge(loc, inc) ==
    IF inc = <<>> THEN [accs |-> loc, ok |-> TRUE]
    ELSE LET d == Head(inc)
             i == IF MATCHRULE = "id" THEN AIndex(loc, d.id) ELSE 0
         IN IF i = 0 THEN AccsMerge(Append(loc, d), Tail(inc))            \* Account.from_dict: a copy of the payload entry
            ELSE LET r == AccMergeOne(loc[i], d) IN
                 IF r.ok THEN AccsMerge([loc EXCEPT ![i] = r.acc], Tail(inc))
                 ELSE [accs |-> [loc EXCEPT ![i] = r.acc], ok |-> FALSE]    \* AssertionError leaves Wallet.merge here

\* Wallet.merge(manager, password, data) after a successful unpack: preferences first, then the accounts
Merge(w, s) == LET r == AccsMerge(w.accs, s.accs) IN
               [accs |-> r.accs, prefs |-> PrefMerge(w.prefs, s.prefs), ok |-> r.ok]

\* device = [accs, prefs, encpw]; the two forms of jsonrpc_sync_apply as functions (used by the actions AND the clauses)
Dev(d) == [accs |-> accs[d], prefs |-> prefs[d], encpw |-> encpw[d]]
Snap(dev, p) == [full |-> TRUE, pw |-> p, accs |-> dev.accs, prefs |-> dev.prefs]       \* Wallet.pack(p)
Adopt(q, pw, p) == IF EodOn(q) /\ p # pw THEN p ELSE pw
PushFx(dev, p) == [dev EXCEPT !.encpw = Adopt(dev.prefs, dev.encpw, p)]
PullFx(dev, s, p) ==
    IF p # s.pw THEN [accs |-> dev.accs, prefs |-> dev.prefs, encpw |-> dev.encpw, ok |-> FALSE, refused |-> TRUE]
    ELSE LET m == Merge(dev, s) IN
         [accs |-> m.accs, prefs |-> m.prefs, ok |-> m.ok, refused |-> FALSE,
          encpw |-> IF m.ok THEN Adopt(m.prefs, dev.encpw, p) ELSE dev.encpw]
Data(x) == [accs |-> x.accs, prefs |-> x.prefs, encpw |-> x.encpw]

-----------------------------------------------------------------------------
(* what Wallet.hash covers *)
HashIn(dev) == [pw |-> IF EodOn(dev.prefs) /\ dev.encpw # "none" THEN dev.encpw ELSE "none",
                prefs |-> CASE HASHPREFS = "ordered" -> dev.prefs
                            [] HASHPREFS = "sorted" -> SortPrefs(dev.prefs)
                            [] HASHPREFS = "none" -> <<>>,
                accs |-> Range(dev.accs)]
HashOf(d) == HashIn(Dev(d))

-----------------------------------------------------------------------------
(* the daemon calls as functions of the device state  dev = [accs, prefs, encpw],  the device's clock `now` and the
   server's payload; the actions below and the trace module (WalletMergeTrace) both use them *)
Sv(dev, now) == [dev EXCEPT !.prefs = SaveFx(@, dev.encpw, now)]                    \* every edit ends with wallet.save()
At(dev, id) == AIndex(dev.accs, id)
\* account_add / account_create: Account.from_dict without modified_on -> int(time.time())
AddFx(dev, now, id, g) == Sv([dev EXCEPT !.accs = Append(@, [id |-> id, name |-> Name0, mod |-> now, gen |-> g, gap |-> Gap0, keys |-> {}])], now)
\* account_remove
RemoveFx(dev, now, id) == Sv([dev EXCEPT !.accs = SelectSeq(@, LAMBDA a : a.id # id)], now)
\* account_set --new_name
RenameFx(dev, now, id, n) == Sv([dev EXCEPT !.accs[At(dev, id)] = [@ EXCEPT !.name = n, !.mod = now]], now)
\* account_set --receiving_gap ... (only deterministic-chain accounts have the settings)
SetGapFx(dev, now, id, g) == Sv([dev EXCEPT !.accs[At(dev, id)] = [@ EXCEPT !.gap = g, !.mod = now]], now)
\* account_set --default: moved to the front, modified_on touched
DefaultFx(dev, now, id) == Sv([dev EXCEPT !.accs = <<[Acc(dev.accs, id) EXCEPT !.mod = now]>> \o SelectSeq(dev.accs, LAMBDA a : a.id # id)], now)
\* channel_create / channel_import: Account.add_channel_private_key; modified_on NOT touched
AddKeyFx(dev, now, id, c) == Sv([dev EXCEPT !.accs[At(dev, id)] = [@ EXCEPT !.keys = @ \cup {c}]], now)
\* Account.save_max_gap (ledger start): the gaps change, modified_on NOT touched (named deviation, off unless "DriftGap" in Ops)
DriftGapFx(dev, now, id, g) == Sv([dev EXCEPT !.accs[At(dev, id)] = [@ EXCEPT !.gap = g]], now)
\* preference_set
SetPrefFx(dev, now, k, v) == Sv([dev EXCEPT !.prefs = PSet(@, k, v, now)], now)
\* wallet_encrypt / wallet_decrypt
EncryptFx(dev, now, q) == [dev EXCEPT !.encpw = q, !.prefs = PSet(@, EOD, "T", now)]
DecryptFx(dev, now) == [dev EXCEPT !.prefs = PSet(@, EOD, "F", now)]
\* wallet.save(), restart, wallet_unlock with the held password if the file is encrypted (a wallet without accounts is
\* never locked: nobody is asked for the password, the next save switches encrypt-on-disk off)
ReloadFx(dev, now) == LET q == SaveFx(dev.prefs, dev.encpw, now) IN
                      [dev EXCEPT !.prefs = SortPrefs(q), !.encpw = IF EodOn(q) /\ dev.accs # <<>> THEN @ ELSE "none"]

\* a call is a tuple <<op, device, arguments...>>; Guard says when the daemon call exists / does anything
Guard(a, dev, blb) ==
    CASE a[1] = "Add" -> a[3] \notin IdsOf(dev.accs)
      [] a[1] \in {"Remove", "Rename"} -> a[3] \in IdsOf(dev.accs)
      [] a[1] = "SetGap" -> a[3] \in IdsOf(dev.accs) /\ Acc(dev.accs, a[3]).gen = "hd"
      [] a[1] = "Default" -> At(dev, a[3]) > 1
      [] a[1] = "AddKey" -> a[3] \in IdsOf(dev.accs) /\ a[4] \notin Acc(dev.accs, a[3]).keys
      [] a[1] = "DriftGap" -> a[3] \in IdsOf(dev.accs) /\ Acc(dev.accs, a[3]).gen = "hd" /\ Acc(dev.accs, a[3]).gap # a[4]
      [] a[1] = "Decrypt" -> EodOn(dev.prefs) \/ dev.encpw # "none"
      [] a[1] \in {"Pull", "PullWrong"} -> blb.full
      [] OTHER -> TRUE
ApplyFx(a, dev, now, blb) ==
    CASE a[1] = "Add" -> AddFx(dev, now, a[3], a[4])
      [] a[1] = "Remove" -> RemoveFx(dev, now, a[3])
      [] a[1] = "Rename" -> RenameFx(dev, now, a[3], a[4])
      [] a[1] = "SetGap" -> SetGapFx(dev, now, a[3], a[4])
      [] a[1] = "Default" -> DefaultFx(dev, now, a[3])
      [] a[1] = "AddKey" -> AddKeyFx(dev, now, a[3], a[4])
      [] a[1] = "DriftGap" -> DriftGapFx(dev, now, a[3], a[4])
      [] a[1] = "SetPref" -> SetPrefFx(dev, now, a[3], a[4])
      [] a[1] = "Encrypt" -> EncryptFx(dev, now, a[3])
      [] a[1] = "Decrypt" -> DecryptFx(dev, now)
      [] a[1] = "Reload" -> ReloadFx(dev, now)
      [] a[1] = "Push" -> PushFx(dev, a[3])
      [] a[1] \in {"Pull", "PullWrong"} -> Data(PullFx(dev, blb, a[3]))
      [] OTHER -> dev

-----------------------------------------------------------------------------
(* actions: one per daemon call *)
Init == /\ accs = [d \in Devices |-> <<>>] /\ prefs = [d \in Devices |-> <<>>]
        /\ clock = [d \in Devices |-> 0] /\ encpw = [d \in Devices |-> "none"]
        /\ blob = NoBlob /\ nops = 0 /\ act = <<"Init">>

\* the call `a` by device a[2]: counted, remembered, its effect on that device's wallet
Call(a) == /\ nops < MaxOps /\ nops' = nops + 1 /\ act' = a
           /\ Guard(a, Dev(a[2]), blob)
           /\ LET r == ApplyFx(a, Dev(a[2]), clock[a[2]], blob) IN
                /\ accs' = [accs EXCEPT ![a[2]] = r.accs] /\ prefs' = [prefs EXCEPT ![a[2]] = r.prefs]
                /\ encpw' = [encpw EXCEPT ![a[2]] = r.encpw]
           /\ UNCHANGED clock

Tick(d) == /\ "Tick" \in Ops /\ clock[d] < MaxClock /\ clock' = [clock EXCEPT ![d] = @ + 1]
           /\ act' = <<"Tick", d>> /\ UNCHANGED <<accs, prefs, encpw, blob, nops>>
AddAccount(d, id, g) == "Add" \in Ops /\ Len(accs[d]) < MaxAcc /\ Call(<<"Add", d, id, g>>) /\ UNCHANGED blob
RemoveAccount(d, id) == "Remove" \in Ops /\ Call(<<"Remove", d, id>>) /\ UNCHANGED blob
Rename(d, id, n) == "Rename" \in Ops /\ Call(<<"Rename", d, id, n>>) /\ UNCHANGED blob
SetGap(d, id, g) == "SetGap" \in Ops /\ Call(<<"SetGap", d, id, g>>) /\ UNCHANGED blob
MakeDefault(d, id) == "Default" \in Ops /\ Call(<<"Default", d, id>>) /\ UNCHANGED blob
AddKey(d, id, c) == "AddKey" \in Ops /\ Call(<<"AddKey", d, id, c>>) /\ UNCHANGED blob
DriftGap(d, id, g) == "DriftGap" \in Ops /\ Call(<<"DriftGap", d, id, g>>) /\ UNCHANGED blob
SetPref(d, k, v) == "SetPref" \in Ops /\ Call(<<"SetPref", d, k, v>>) /\ UNCHANGED blob
Encrypt(d, q) == "Enc" \in Ops /\ Call(<<"Encrypt", d, q>>) /\ UNCHANGED blob
Decrypt(d) == "Enc" \in Ops /\ Call(<<"Decrypt", d>>) /\ UNCHANGED blob
Reload(d) == "Reload" \in Ops /\ Call(<<"Reload", d>>) /\ UNCHANGED blob
\* sync_apply without data: the payload goes to the server
Push(d, p) == "Sync" \in Ops /\ Call(<<"Push", d, p>>) /\ blob' = Snap(Dev(d), p)
\* sync_apply with the server's payload: refused (wrong password), aborted half way (ok = FALSE) or merged
Pull(d, p) == /\ "Sync" \in Ops /\ blob.full
              /\ LET r == PullFx(Dev(d), blob, p) IN Call(<<IF r.refused THEN "PullWrong" ELSE "Pull", d, p, r.ok>>)
              /\ UNCHANGED blob

Edit(d) == \/ \E id \in AllIds, g \in Gens : AddAccount(d, id, g)
           \/ \E id \in AllIds : RemoveAccount(d, id) \/ MakeDefault(d, id)
           \/ \E id \in AllIds, n \in Names : Rename(d, id, n)
           \/ \E id \in AllIds, g \in Gaps : SetGap(d, id, g) \/ DriftGap(d, id, g)
           \/ \E id \in AllIds, c \in ChanKeys : AddKey(d, id, c)
           \/ \E k \in PrefKeys, v \in Vals : SetPref(d, k, v)
           \/ \E q \in LocalPws : Encrypt(d, q)
           \/ Decrypt(d)
Next == \E d \in Devices : Tick(d) \/ Edit(d) \/ Reload(d) \/ (\E p \in SyncPws : Push(d, p) \/ Pull(d, p))
Spec == Init /\ [][Next]_vars

-----------------------------------------------------------------------------
(* well-formedness *)
TypeOK ==
    /\ \A d \in Devices :
         /\ \A i \in DOMAIN accs[d] : /\ accs[d][i].id \in AllIds /\ accs[d][i].name \in Names \cup {Name0}
                                      /\ accs[d][i].mod \in 0..MaxClock /\ accs[d][i].gen \in Gens
                                      /\ accs[d][i].gap \in Gaps \cup {Gap0} /\ accs[d][i].keys \subseteq ChanKeys
         /\ \A i \in DOMAIN prefs[d] : prefs[d][i].ts \in 0..MaxClock /\ prefs[d][i].srt \in BOOLEAN
         /\ \A i, j \in DOMAIN prefs[d] : prefs[d][i].k = prefs[d][j].k => i = j
         /\ clock[d] \in 0..MaxClock
    /\ blob.full \in BOOLEAN
\* local edits never hold an id twice; a merge keeps it so (MATCHRULE "never" breaks it)
UniqueIds == \A d \in Devices : \A i, j \in DOMAIN accs[d] : accs[d][i].id = accs[d][j].id => i = j

-----------------------------------------------------------------------------
(* the clauses; w = receiving device state, s = payload, m = Merge(w, s) *)
Sources == {Snap(Dev(a), SP) : a \in Devices} \cup (IF blob.full THEN {blob} ELSE {})

NoDupNoDropAt(w, s, m) ==
    /\ \A id \in AllIds :
         IF id \in IdsOf(w.accs) THEN Count(m.accs, id) = Count(w.accs, id)                \* held: neither doubled nor dropped
         ELSE IF id \in IdsOf(s.accs) THEN (IF m.ok THEN Count(m.accs, id) = 1 ELSE Count(m.accs, id) <= 1)
         ELSE Count(m.accs, id) = 0
    /\ Len(m.accs) >= Len(w.accs) /\ \A i \in DOMAIN w.accs : m.accs[i].id = w.accs[i].id      \* list order of the held ones kept
AddsExactlyMissingAt(w, s, m) ==
    m.ok => /\ IdsOf(m.accs) = IdsOf(w.accs) \cup IdsOf(s.accs)
            /\ \A id \in IdsOf(s.accs) \ IdsOf(w.accs) : Acc(m.accs, id) = Acc(s.accs, id)    \* a faithful copy
            /\ \A id \in IdsOf(w.accs) \ IdsOf(s.accs) : Acc(m.accs, id) = Acc(w.accs, id)    \* untouched
CarriedFieldsAt(w, s, m) ==
    m.ok => \A id \in IdsOf(w.accs) \cap IdsOf(s.accs) :
              LET l == Acc(w.accs, id)  i == Acc(s.accs, id)  r == Acc(m.accs, id) IN
                /\ r.keys = l.keys \cup i.keys                                   \* channel keys united, whatever the times
                /\ r.gen = l.gen /\ r.id = l.id                                  \* never carried
                /\ r.mod = Max(l.mod, i.mod)
                /\ i.mod > l.mod => r.name = i.name /\ (l.gen = "hd" => r.gap = i.gap)
                /\ i.mod < l.mod => r.name = l.name /\ r.gap = l.gap
                \* a tie may go either way as far as the statement goes (the code keeps the local side: TieRulesAt)
                /\ i.mod = l.mod => \/ (r.name = l.name /\ r.gap = l.gap)
                                     \/ (r.name = i.name /\ (l.gen = "hd" => r.gap = i.gap))
PrefLaterWinsAt(w, s, m) ==
    /\ KeysOf(m.prefs) = KeysOf(w.prefs) \cup KeysOf(s.prefs)
    /\ \A k \in KeysOf(m.prefs) :
         IF k \notin KeysOf(s.prefs) THEN Pref(m.prefs, k) = Pref(w.prefs, k)
         ELSE IF k \notin KeysOf(w.prefs) THEN Pref(m.prefs, k) = Pref(s.prefs, k)
         ELSE IF Pref(s.prefs, k).ts > Pref(w.prefs, k).ts THEN Pref(m.prefs, k) = Pref(s.prefs, k)
         ELSE IF Pref(s.prefs, k).ts < Pref(w.prefs, k).ts THEN Pref(m.prefs, k) = Pref(w.prefs, k)
         ELSE Pref(m.prefs, k) \in {Pref(s.prefs, k), Pref(w.prefs, k)}          \* tie: either (the code: the INCOMING entry, TieRulesAt)
    /\ \A i \in DOMAIN w.prefs : m.prefs[i].k = w.prefs[i].k                    \* held keys keep their position
\* what the code does on ties (transcription, not demanded by the statement; the statement's "ties keep the local value" is
\* what the code does for account names and NOT what it does for preferences)
TieRulesAt(w, s, m) ==
    /\ m.ok => \A id \in IdsOf(w.accs) \cap IdsOf(s.accs) :
                 LET l == Acc(w.accs, id)  i == Acc(s.accs, id)  r == Acc(m.accs, id) IN
                   i.mod = l.mod => r.name = l.name /\ r.gap = l.gap
    /\ \A k \in KeysOf(w.prefs) \cap KeysOf(s.prefs) :
         Pref(s.prefs, k).ts = Pref(w.prefs, k).ts => Pref(m.prefs, k) = Pref(s.prefs, k)
IdempotentAt(w, s, m) == m.ok => Merge(m, s) = m
IdempotentNaiveAt(w, s, m) == Merge(m, s) = m

\* all five in one pass (what the big runs check; the named ones below say which clause it was)
MergeClauses == \A d \in Devices : \A s \in Sources :
                  LET w == Dev(d)  m == Merge(w, s) IN
                    /\ NoDupNoDropAt(w, s, m) /\ AddsExactlyMissingAt(w, s, m) /\ CarriedFieldsAt(w, s, m)
                    /\ PrefLaterWinsAt(w, s, m) /\ IdempotentAt(w, s, m)
ForAllMerges(P(_, _, _)) == \A d \in Devices : \A s \in Sources : P(Dev(d), s, Merge(Dev(d), s))
NoDupNoDrop == ForAllMerges(NoDupNoDropAt)
AddsExactlyMissing == ForAllMerges(AddsExactlyMissingAt)
CarriedFields == ForAllMerges(CarriedFieldsAt)
PrefLaterWins == ForAllMerges(PrefLaterWinsAt)
Idempotent == ForAllMerges(IdempotentAt)
TieRules == ForAllMerges(TieRulesAt)
IdempotentNaive == ForAllMerges(IdempotentNaiveAt)

\* same accounts (every field), same preference values and timestamps; order and srt are representation
PrefData(q) == {[k |-> q[i].k, v |-> q[i].v, ts |-> q[i].ts] : i \in DOMAIN q}
SameData(u, v) == Range(u.accs) = Range(v.accs) /\ PrefData(u.prefs) = PrefData(v.prefs)
SameRepr(u, v) == u.prefs = v.prefs
EncPart(u) == IF EodOn(u.prefs) /\ u.encpw # "none" THEN u.encpw ELSE "none"

\* Sync(a, b) ; Sync(b, a) with the user's one sync password
Exchange(a, b) == LET A0 == PushFx(Dev(a), SP)
                      b1 == PullFx(Dev(b), Snap(A0, SP), SP)
                      B1 == PushFx(Data(b1), SP)
                      a1 == PullFx(A0, Snap(B1, SP), SP)
                  IN [a |-> a1, b |-> B1, ok |-> b1.ok /\ a1.ok]
\* the precondition under which the code converges: accounts both hold use the same generator, and where their
\* modified_on is equal their name and gaps are equal too (no two edits carry the same timestamp)
Compatible(u, v) == \A id \in IdsOf(u.accs) \cap IdsOf(v.accs) :
                      LET x == Acc(u.accs, id)  y == Acc(v.accs, id) IN
                        x.gen = y.gen /\ (x.mod = y.mod => x.name = y.name /\ x.gap = y.gap)
Pairs == {p \in Devices \X Devices : p[1] # p[2]}
ConvergeAt(e) == e.ok /\ SameData(e.a, e.b)
\* hash after the exchange: entry for entry the same preference objects and the same password part, so the hashes are
\* equal as soon as the preference maps are in the same ORDER (restated); not in general (naive)
ConvergeHashAt(e) == /\ Range(e.a.prefs) = Range(e.b.prefs) /\ EncPart(e.a) = EncPart(e.b)
                     /\ (SameRepr(e.a, e.b) => HashIn(e.a) = HashIn(e.b))
ConvergeHashNaiveAt(e) == HashIn(e.a) = HashIn(e.b)
OverPairs(P(_), needCompat) == \A p \in Pairs : (needCompat => Compatible(Dev(p[1]), Dev(p[2]))) => P(Exchange(p[1], p[2]))
Converge == OverPairs(ConvergeAt, TRUE)
ConvergeNaive == OverPairs(ConvergeAt, FALSE)
ConvergeHash == OverPairs(ConvergeHashAt, TRUE)
ConvergeHashNaive == OverPairs(ConvergeHashNaiveAt, TRUE)
\* every device pulls and pushes in turn, twice round: all hold the same (three devices, one server)
RECURSIVE Round(_, _, _)
Round(st, order, srv) ==      \* st: [Devices -> device], order: Seq(Devices), srv: payload
    IF order = <<>> THEN [st |-> st, srv |-> srv]
    ELSE LET d == Head(order)
             r == IF srv.full THEN Data(PullFx(st[d], srv, SP)) ELSE st[d]
             r2 == PushFx(r, SP)
         IN Round([st EXCEPT ![d] = r2], Tail(order), Snap(r2, SP))
AllCompatible == \A p \in Pairs : Compatible(Dev(p[1]), Dev(p[2]))
StarConvergeFor(order) == LET r == Round([d \in Devices |-> Dev(d)], order \o order, NoBlob).st IN
                          \A p \in Pairs : SameData(r[p[1]], r[p[2]])
ExchangeClauses == \A p \in Pairs : Compatible(Dev(p[1]), Dev(p[2])) =>
                     LET e == Exchange(p[1], p[2]) IN ConvergeAt(e) /\ ConvergeHashAt(e)
Perms == {o \in [1..Cardinality(Devices) -> Devices] : \A i, j \in DOMAIN o : o[i] = o[j] => i = j}
StarConverge == AllCompatible => \A o \in Perms : StarConvergeFor(o)

\* the hash and the data
HashSound == \A p \in Pairs : HashOf(p[1]) = HashOf(p[2]) => SameData(Dev(p[1]), Dev(p[2])) /\ EncPart(Dev(p[1])) = EncPart(Dev(p[2]))
HashComplete == \A p \in Pairs : (SameData(Dev(p[1]), Dev(p[2])) /\ SameRepr(Dev(p[1]), Dev(p[2])) /\ EncPart(Dev(p[1])) = EncPart(Dev(p[2])))
                                   => HashOf(p[1]) = HashOf(p[2])
HashCompleteNaive == \A p \in Pairs : (SameData(Dev(p[1]), Dev(p[2])) /\ EncPart(Dev(p[1])) = EncPart(Dev(p[2]))) => HashOf(p[1]) = HashOf(p[2])

\* action properties
DataOf(d) == [accs |-> Range(accs[d]), prefs |-> PrefData(prefs[d])]
EditChangesHashA == \A d \in Devices : DataOf(d)' # DataOf(d) => HashOf(d)' # HashOf(d)
EditChangesHash == [][EditChangesHashA]_vars
HashStableNaiveA == \A d \in Devices : (DataOf(d)' = DataOf(d) /\ EncPart(Dev(d))' = EncPart(Dev(d))) => HashOf(d)' = HashOf(d)
HashStableNaive == [][HashStableNaiveA]_vars
\* stable as long as the representation is (restated): nothing but Reload and a pull re-ordering entries changes it
HashStableA == \A d \in Devices : (DataOf(d)' = DataOf(d) /\ prefs'[d] = prefs[d] /\ EncPart(Dev(d))' = EncPart(Dev(d))) => HashOf(d)' = HashOf(d)
HashStable == [][HashStableA]_vars
WrongPasswordRefusedA == act'[1] = "PullWrong" => UNCHANGED <<accs, prefs, clock, encpw, blob>>
WrongPasswordRefused == [][WrongPasswordRefusedA]_vars
\* nothing is ever lost by a pull: accounts and channel keys only grow, timestamps only rise
PullMonotoneA == \A d \in Devices : (act'[1] = "Pull" /\ act'[2] = d) =>
                     /\ IdsOf(accs[d]) \subseteq IdsOf(accs'[d])
                     /\ \A id \in IdsOf(accs[d]) : /\ Acc(accs[d], id).keys \subseteq Acc(accs'[d], id).keys
                                                    /\ Acc(accs'[d], id).mod >= Acc(accs[d], id).mod
                     /\ \A k \in KeysOf(prefs[d]) : k \in KeysOf(prefs'[d]) /\ Pref(prefs'[d], k).ts >= Pref(prefs[d], k).ts
PullMonotone == [][PullMonotoneA]_vars

-----------------------------------------------------------------------------
(* reachability witnesses: the antecedents of the clauses occur (registers, reported by the instance module) *)
BothHold(a, b, id) == id \in IdsOf(accs[a]) /\ id \in IdsOf(accs[b])
W_IncomingNewer == \E p \in Pairs, id \in AllIds : BothHold(p[1], p[2], id) /\ Acc(accs[p[1]], id).mod > Acc(accs[p[2]], id).mod
                                                   /\ Acc(accs[p[1]], id).name # Acc(accs[p[2]], id).name
W_TieDiffer == \E p \in Pairs, id \in AllIds : BothHold(p[1], p[2], id) /\ Acc(accs[p[1]], id).mod = Acc(accs[p[2]], id).mod
                                                   /\ Acc(accs[p[1]], id).name # Acc(accs[p[2]], id).name
W_KeyOnlySender == \E p \in Pairs, id \in AllIds : BothHold(p[1], p[2], id) /\ Acc(accs[p[1]], id).keys \ Acc(accs[p[2]], id).keys # {}
                                                   /\ Acc(accs[p[2]], id).keys \ Acc(accs[p[1]], id).keys # {}
W_AccOnlySender == \E p \in Pairs : IdsOf(accs[p[1]]) \ IdsOf(accs[p[2]]) # {} /\ IdsOf(accs[p[2]]) \ IdsOf(accs[p[1]]) # {}
W_PrefTieDiffer == \E p \in Pairs, k \in PrefKeys : k \in KeysOf(prefs[p[1]]) /\ k \in KeysOf(prefs[p[2]])
                                                   /\ Pref(prefs[p[1]], k).ts = Pref(prefs[p[2]], k).ts /\ Pref(prefs[p[1]], k).v # Pref(prefs[p[2]], k).v
W_PrefNewer == \E p \in Pairs, k \in PrefKeys : k \in KeysOf(prefs[p[1]]) /\ k \in KeysOf(prefs[p[2]])
                                                   /\ Pref(prefs[p[1]], k).ts > Pref(prefs[p[2]], k).ts /\ Pref(prefs[p[1]], k).v # Pref(prefs[p[2]], k).v
W_Clash == \E d \in Devices, s \in Sources : ~Merge(Dev(d), s).ok
W_SameDataOtherHash == \E p \in Pairs : SameData(Dev(p[1]), Dev(p[2])) /\ EncPart(Dev(p[1])) = EncPart(Dev(p[2])) /\ HashOf(p[1]) # HashOf(p[2])
W_SameHash == \E p \in Pairs : HashOf(p[1]) = HashOf(p[2]) /\ accs[p[1]] # <<>> /\ prefs[p[1]] # <<>>
\* (action) an account removed on a device comes back with its next pull: no tombstones
W_Resurrect == act[1] = "Remove" /\ act'[1] = "Pull" /\ act'[2] = act[2] /\ act[3] \in IdsOf(accs'[act[2]])
W_Refused == act[1] = "PullWrong"
W_Adopted == act[1] = "Pull" /\ encpw[act[2]] = act[3] /\ EodOn(prefs[act[2]])
W_SaveResetsEod == \E d \in Devices : PIndex(prefs[d], EOD) # 0 /\ Pref(prefs[d], EOD).v = "F" /\ encpw[d] = "none" /\ act[1] \notin {"Decrypt", "Pull", "Reload"}
                                      /\ act[2] = d
W_NotCompatible == ~AllCompatible
W_EncHash == \E d \in Devices : EncPart(Dev(d)) # "none"
=============================================================================
