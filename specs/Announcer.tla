------------------------------ MODULE Announcer ------------------------------
(* G02, part 4 -- lbry/dht/blob_announcer.py: BlobAnnouncer._announce / _run_consumer / start / stop, with the two
   storage calls it uses (SQLiteStorage.get_blobs_to_announce: finished blobs with next_announce_time < now;
   update_last_announced_blobs: next_announce_time = now + DATA_EXPIRATION / 2) and Node.announce_blob (returns the ids
   of the peers that answered the store request with OK).

   One action per await point of the task:
     Join / Wake   `await node.joined.wait()`, `await asyncio.sleep(60)`
     Skip / Fetch  a round is skipped when the routing table is empty, else announce_queue.extend(await storage.get_blobs_to_announce())
     Pop(i)        consumer i (there are BATCH of them, gathered) pops the LAST hash of the queue and calls announce_blob
     Done(i, r)    the call returns r stored-to peers (r = -1: it raised; logged, the consumer goes on):
                   `if peers > 4: self.announced.add(blob_hash)`  -- THRESH = 4
     Flush         when every consumer has found the queue empty: update_last_announced_blobs(announced), announced.clear()
     Stop / Start  cancel at any await point: the queue and the `announced` set survive in the object
     BecomeDue     the storage reports another blob due (new blob, or half the expiry time has passed)
   The environment decides joined / has-peers and every result.

   Clauses: MarkedWasStored (a blob is marked announced only if an announce_blob call for it since its previous mark
   reported more than THRESH peers -- the statement says "at least one", the code demands five, so the statement's
   clause MarkedStoredAtLeastOnce follows); EveryDueAttempted (every blob of a fetch is handed to announce_blob before
   the round ends, whatever fails); UnstoredStaysDue (a blob that reached <= THRESH peers is not marked and is fetched
   again by the next round); NoFetchWithoutPeers; NothingAfterStop; AtMostBatch.
   MODE: "code" | "markzero" (peers >= 0 counts) | "markall" (every attempted blob is flushed) | "onepass" (every
   consumer announces one blob and the round ends after one gather). *)
EXTENDS Integers, Sequences, FiniteSets, TLC, TLCExt

CONSTANTS BLOBS, BATCH, THRESH, RESULTS, ERRORS, MAXROUNDS, MAXDUE, MODE     \* RESULTS: peer counts; ERRORS: announce_blob may raise

VARIABLES phase,        \* "off" | "join" | "sleep" | "fetch" | "consume" | "flush"
          joined, peers,
          due,          \* what get_blobs_to_announce would return now
          queue, cons,  \* announce_queue; consumer i: [s |-> "idle" (about to look at the queue) | "end" (found it empty) | "busy" (awaiting announce_blob(b)), b]
          announced,    \* self.announced
          fetched, tried, best,  \* this round: blobs fetched / handed to announce_blob; per blob the best result since its previous mark
          rounds, dues,
          ev            \* what the step just taken did: [k |-> "mark", blobs |-> ...] etc.
vars == <<phase, joined, peers, due, queue, cons, announced, fetched, tried, best, rounds, dues, ev>>

C == 1..BATCH
NoEv == [k |-> "none"]
Idle == [s |-> "idle", b |-> "-"]
End == [s |-> "end", b |-> "-"]
Busy == {i \in C : cons[i].s = "busy"}
Counts(r) == IF MODE = "markzero" THEN r >= 0 ELSE r > THRESH

Init == /\ phase = "off" /\ joined \in BOOLEAN /\ peers \in BOOLEAN /\ due \in SUBSET BLOBS /\ Cardinality(due) <= MAXDUE
        /\ queue = <<>> /\ cons = [i \in C |-> Idle] /\ announced = {} /\ fetched = {} /\ tried = {}
        /\ best = [b \in BLOBS |-> -1] /\ rounds = 0 /\ dues = 0 /\ ev = NoEv

Start == /\ phase = "off" /\ phase' = "join" /\ cons' = [i \in C |-> Idle] /\ ev' = [k |-> "start"]
         /\ UNCHANGED <<joined, peers, due, queue, announced, fetched, tried, best, rounds, dues>>
Stop == /\ phase # "off" /\ phase' = "off" /\ ev' = [k |-> "stop"] /\ cons' = [i \in C |-> Idle]
        /\ fetched' = {} /\ tried' = {}
        /\ UNCHANGED <<joined, peers, due, queue, announced, best, rounds, dues>>
Env == /\ \/ joined' = ~joined /\ UNCHANGED peers
          \/ peers' = ~peers /\ UNCHANGED joined
       /\ ev' = NoEv
       /\ UNCHANGED <<phase, due, queue, cons, announced, fetched, tried, best, rounds, dues>>
BecomeDue(b) == /\ b \notin due /\ dues < MAXDUE /\ due' = due \cup {b} /\ dues' = dues + 1 /\ ev' = NoEv
                /\ UNCHANGED <<phase, joined, peers, queue, cons, announced, fetched, tried, best, rounds>>
Join == /\ phase = "join" /\ joined /\ phase' = "sleep" /\ ev' = NoEv
        /\ UNCHANGED <<joined, peers, due, queue, cons, announced, fetched, tried, best, rounds, dues>>
Wake == /\ phase = "sleep" /\ rounds < MAXROUNDS /\ rounds' = rounds + 1
        /\ phase' = "fetch" /\ ev' = NoEv
        /\ UNCHANGED <<joined, peers, due, queue, cons, announced, fetched, tried, best, dues>>
RECURSIVE SeqOf(_)
SeqOf(S) == IF S = {} THEN <<>> ELSE LET x == CHOOSE x \in S : TRUE IN <<x>> \o SeqOf(S \ {x})
Skip == /\ phase = "fetch" /\ ~peers /\ phase' = "join" /\ ev' = [k |-> "skip"]        \* "No peers in DHT, announce round skipped"
        /\ UNCHANGED <<joined, peers, due, queue, cons, announced, fetched, tried, best, rounds, dues>>
Fetch == /\ phase = "fetch" /\ peers                                          \* the check and the storage call are one step
         /\ queue' = queue \o SeqOf(due)
         /\ fetched' = due /\ tried' = {} /\ cons' = [i \in C |-> Idle]
         /\ phase' = (IF queue' = <<>> THEN "join" ELSE "consume")              \* `while len(queue) > 0` not entered
         /\ ev' = [k |-> "due", blobs |-> due, peers |-> peers]
         /\ UNCHANGED <<joined, peers, due, announced, best, rounds, dues>>
Pop(i) == /\ phase = "consume" /\ cons[i] = Idle
          /\ IF queue = <<>> THEN cons' = [cons EXCEPT ![i] = End] /\ UNCHANGED <<queue, tried>> /\ ev' = NoEv
             ELSE /\ cons' = [cons EXCEPT ![i] = [s |-> "busy", b |-> queue[Len(queue)]]] /\ queue' = SubSeq(queue, 1, Len(queue) - 1)
                  /\ tried' = tried \cup {queue[Len(queue)]} /\ ev' = [k |-> "try", b |-> queue[Len(queue)]]
          /\ UNCHANGED <<phase, joined, peers, due, announced, fetched, best, rounds, dues>>
Done(i, r) == /\ phase = "consume" /\ i \in Busy
              /\ LET b == cons[i].b IN
                   /\ announced' = (IF Counts(r) \/ MODE = "markall" THEN announced \cup {b} ELSE announced)
                   /\ best' = [best EXCEPT ![b] = IF r > @ THEN r ELSE @]
                   /\ ev' = [k |-> "res", b |-> b, r |-> r]
              /\ cons' = [cons EXCEPT ![i] = IF MODE = "onepass" THEN End ELSE Idle]
              /\ UNCHANGED <<phase, joined, peers, due, queue, fetched, tried, rounds, dues>>
Gathered == /\ phase = "consume" /\ \A i \in C : cons[i] = End
            /\ phase' = "flush" /\ ev' = NoEv
            /\ UNCHANGED <<joined, peers, due, queue, cons, announced, fetched, tried, best, rounds, dues>>
Flush == /\ phase = "flush"
         /\ due' = due \ announced                                             \* next_announce_time moves half a day ahead
         /\ best' = [b \in BLOBS |-> IF b \in announced THEN -1 ELSE best[b]]
         /\ ev' = [k |-> "mark", blobs |-> announced, best |-> best, fetched |-> fetched, tried |-> tried, queue |-> queue,
                   last |-> (queue = <<>> \/ MODE = "onepass")]
         /\ announced' = {}
         /\ phase' = (IF queue = <<>> \/ MODE = "onepass" THEN "join" ELSE "consume") /\ cons' = [i \in C |-> Idle]
         /\ UNCHANGED <<joined, peers, queue, fetched, tried, rounds, dues>>
Next == \/ Start \/ Stop \/ Env \/ Join \/ Wake \/ Skip \/ Fetch \/ Gathered \/ Flush
        \/ \E b \in BLOBS : BecomeDue(b)
        \/ \E i \in C : Pop(i) \/ \E r \in RESULTS \cup (IF ERRORS THEN {-1} ELSE {}) : Done(i, r)
Spec == Init /\ [][Next]_vars

\* ---------------------------------------------------------------- clauses
TypeOK == /\ phase \in {"off", "join", "sleep", "fetch", "consume", "flush"} /\ due \subseteq BLOBS /\ announced \subseteq BLOBS
          /\ \A i \in DOMAIN queue : queue[i] \in BLOBS
Marked == ev.k = "mark"
MarkedWasStored == Marked => \A b \in ev.blobs : ev.best[b] > THRESH
MarkedStoredAtLeastOnce == Marked => \A b \in ev.blobs : ev.best[b] >= 1            \* the statement's clause
EveryDueAttempted == (Marked /\ ev.last) => (ev.fetched \subseteq ev.tried /\ ev.queue = <<>>)      \* when the round ends
UnstoredStaysDue == Marked => \A b \in ev.fetched : (ev.best[b] <= THRESH => b \in due)
StoredLeavesDue == Marked => \A b \in ev.blobs : b \notin due
NoFetchWithoutPeers == ev.k = "due" => ev.peers
NothingAfterStop == phase = "off" => (Busy = {} /\ ev.k \in {"none", "stop"})
AtMostBatch == Cardinality(Busy) <= BATCH

\* ---------------------------------------------------------------- witnesses (each must be VIOLATED)
WMarked == ~(Marked /\ ev.blobs # {})
WRoundNothingMarked == ~(Marked /\ ev.blobs = {} /\ ev.fetched # {})
WPartly == ~(Marked /\ ev.blobs # {} /\ ev.blobs # ev.fetched)
WSkipped == ~(ev.k = "skip")
WRaised == ~(ev.k = "res" /\ ev.r = -1)
WTwoBusy == ~(Cardinality(Busy) >= 2)
WStopMid == ~(ev.k = "stop" /\ announced # {} /\ queue # <<>>)
WRetried == ~(ev.k = "try" /\ best[ev.b] >= 0 /\ rounds >= 2)
\* one run marks every witness it reaches (workers = 1): CONSTRAINT MarkWitnesses, POSTCONDITION ReportWitnesses
WitnessNames == <<"WMarked", "WRoundNothingMarked", "WPartly", "WSkipped", "WRaised", "WTwoBusy", "WStopMid", "WRetried">>
MarkWitnesses ==
                 /\ (~WMarked => TLCSet(101, TRUE))
                 /\ (~WRoundNothingMarked => TLCSet(102, TRUE))
                 /\ (~WPartly => TLCSet(103, TRUE))
                 /\ (~WSkipped => TLCSet(104, TRUE))
                 /\ (~WRaised => TLCSet(105, TRUE))
                 /\ (~WTwoBusy => TLCSet(106, TRUE))
                 /\ (~WStopMid => TLCSet(107, TRUE))
                 /\ (~WRetried => TLCSet(108, TRUE))
ReportWitnesses == TLCGet("stats").diameter >= 0 /\ \A i \in DOMAIN WitnessNames : PrintT(<<"WITNESS", WitnessNames[i], TLCGetOrDefault(100 + i, FALSE)>>)

=============================================================================
