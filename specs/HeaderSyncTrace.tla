-------------------------- MODULE HeaderSyncTrace --------------------------
(* Trace validation for G01: executions of a REAL lbry.wallet.ledger.Ledger (real Headers, real 112-byte headers mined
   by the driver, real header file, real asyncio tasks queueing on the real header lock) against a scripted server.
   The clauses of G01 are evaluated by TLC on what the real objects did and show.

   The driver names every distinct 112-byte header by an integer id >= 1 and supplies, per trace,
     hdr[id] = [p |-> id of the header it names as predecessor (0: none / not a header of the driver's chains),
                ok |-> it carries the bits the LBRY retarget rule demands on top of that predecessor and meets their target
                       (judged by the driver's own implementation of the consensus rules, C07), and is the configured genesis
                       if it names no predecessor]
     cap  = most headers the scripted server puts into one reply,   mono = the server only moved to higher tips
   Events, in the order they really happened:
     srv     [chain]                 the server's best chain becomes `chain` (ids from genesis) and is thereby announced
     note    [tip, height]           a header notification is handed to receive_header (a task is spawned)
     req     [h, count]              the ledger sent get_headers(h, count)
     reply   [ids]                   the oldest outstanding request is answered (cut from the server's chain at this moment)
     boot    [chain]                 the header file the ledger starts from (a chain announced in an earlier session)
     connect [start, ids, ret, chain] the ledger called headers.connect(start, ids): return value and the chain held afterwards
                                     (chain is left out when it is the chain held before: same = TRUE)
     done    [kind, tip, how]        an update ended: kind "init" (start()) or "note"; tip = the notified header (init: the
                                     server's tip at that moment if the catch-up connected anything, else 0: an initial
                                     sync whose first reply is empty has learnt nothing); how = "return" or "raise"
     obs     [chain, q, pend]        the chain held after the event loop ran dry (left out when same = TRUE); q: nothing is in flight anywhere (no task, no
                                     request, no undelivered notification); pend: outstanding requests
     restart [chain]                 the ledger was stopped at rest and a new one started on the same header file: the chain
                                     the new ledger holds after open() (C07: what open() keeps of a file) *)
EXTENDS Naturals, Integers, Sequences, FiniteSets, TLC, Json, IOUtils, TLCExt
VARIABLES tid, l, ann, srvc, cur, prv, last, fails, reqs, npend, conn, depth
tvars == <<tid, l, ann, srvc, cur, prv, last, fails, reqs, npend, conn, depth>>
TraceLog == JsonDeserialize(IOEnv.TRACE_FILE)
T == TraceLog[tid]
RR == 100                                          \* the rewind bound written into update_headers
Min(a, b) == IF a < b THEN a ELSE b
Max(a, b) == IF a > b THEN a ELSE b
IsPrefix(s, c) == Len(s) <= Len(c) /\ \A k \in 1..Len(s) : s[k] = c[k]
CommonLen(s, c) == LET D == {k \in 1..Min(Len(s), Len(c)) : s[k] # c[k]} IN
                   IF D = {} THEN Min(Len(s), Len(c)) ELSE (CHOOSE x \in D : \A y \in D : x <= y) - 1
Tip(c) == IF c = <<>> THEN 0 ELSE c[Len(c)]
P(id) == IF id \in 1..Len(T.hdr) THEN T.hdr[id].p ELSE 0
Ok(id) == id \in 1..Len(T.hdr) /\ T.hdr[id].ok
NoConn == [start |-> 0, ids |-> <<>>, ret |-> -1, before |-> <<>>]
NoDone == [kind |-> "none", tip |-> 0, how |-> "none"]

TInit == /\ tid \in 1..Len(TraceLog) /\ l = 1 /\ ann = {} /\ srvc = <<>> /\ cur = <<>> /\ prv = <<>> /\ last = NoDone
         /\ fails = 0 /\ reqs = 0 /\ npend = 0 /\ conn = NoConn /\ depth = 0
TNext ==
  /\ l <= Len(T.ev) /\ l' = l + 1 /\ tid' = tid
  /\ LET e == T.ev[l] IN
     CASE e.e = "boot" ->
            /\ cur' = e.chain /\ prv' = e.chain /\ ann' = (IF e.chain = <<>> THEN ann ELSE ann \cup {e.chain}) /\ conn' = NoConn
            /\ UNCHANGED <<srvc, last, fails, reqs, npend, depth>>
       [] e.e = "srv" ->
            /\ srvc' = e.chain /\ ann' = ann \cup {e.chain} /\ reqs' = 0 /\ conn' = NoConn
            /\ UNCHANGED <<cur, prv, last, fails, npend, depth>>
       [] e.e = "note" -> conn' = NoConn /\ UNCHANGED <<ann, srvc, cur, prv, last, fails, reqs, npend, depth>>
       [] e.e = "req" ->
            /\ reqs' = reqs + 1 /\ npend' = npend + 1 /\ conn' = NoConn
            /\ UNCHANGED <<ann, srvc, cur, prv, last, fails, depth>>
       [] e.e = "reply" ->
            /\ npend' = npend - 1 /\ conn' = NoConn
            /\ UNCHANGED <<ann, srvc, cur, prv, last, fails, reqs, depth>>
       [] e.e = "connect" ->
            /\ conn' = [start |-> e.start, ids |-> e.ids, ret |-> e.ret, before |-> cur]
            /\ prv' = cur /\ cur' = (IF e.same THEN cur ELSE e.chain)
            /\ fails' = IF e.ret = 0 THEN fails + 1 ELSE 0
            /\ UNCHANGED <<ann, srvc, last, reqs, npend, depth>>
       [] e.e = "done" ->
            /\ last' = [kind |-> e.kind, tip |-> e.tip, how |-> e.how]
            /\ depth' = Len(cur) - CommonLen(cur, srvc)
            /\ fails' = 0 /\ reqs' = 0 /\ conn' = NoConn
            /\ UNCHANGED <<ann, srvc, cur, prv, npend>>
       [] e.e = "obs" ->
            /\ prv' = cur /\ cur' = (IF e.same THEN cur ELSE e.chain) /\ conn' = NoConn
            /\ UNCHANGED <<ann, srvc, last, fails, reqs, npend, depth>>
       [] e.e = "restart" ->
            /\ prv' = cur /\ cur' = e.chain /\ conn' = NoConn /\ last' = NoDone /\ fails' = 0 /\ reqs' = 0 /\ npend' = 0
            /\ UNCHANGED <<ann, srvc, depth>>
       [] OTHER -> FALSE
E == T.ev[l - 1]                                   \* the event that led to the current state (l > 1)
Was(kind) == l > 1 /\ E.e = kind

\* (1a) a valid chain from genesis: links, demanded bits, proof of work -- at every observation and after every connect()
TChainValid == \A k \in 1..Len(cur) : Ok(cur[k]) /\ P(cur[k]) = (IF k = 1 THEN 0 ELSE cur[k - 1])
\* (1b) prefix-or-equal of a chain the server has announced
TPrefixOfAnnounced == cur = <<>> \/ \E a \in ann : IsPrefix(cur, a)
\* the chain only changes through connect(): an observation shows what the last connect() left
TOnlyConnectChanges == /\ Was("obs") => cur = prv
                       /\ Was("restart") => IsPrefix(cur, prv)
\* (2) connect(): a batch that links to what is held below it is stored whole, one that does not changes nothing, and nothing
\*     of another branch is kept above a stored batch
Linking == conn.ids # <<>> /\ conn.start <= Len(conn.before)
           /\ P(conn.ids[1]) = (IF conn.start = 0 THEN 0 ELSE conn.before[conn.start])
TFollows == Was("connect") =>
              IF Linking /\ \A k \in 1..Len(conn.ids) : Ok(conn.ids[k])
              THEN /\ conn.ret = Len(conn.ids)
                   /\ Len(cur) >= conn.start + conn.ret
                   /\ SubSeq(cur, 1, conn.start) = SubSeq(conn.before, 1, conn.start)
                   /\ SubSeq(cur, conn.start + 1, conn.start + conn.ret) = conn.ids
              ELSE conn.ret = 0 /\ cur = conn.before
TNoStaleKept == (Was("connect") /\ conn.ret > 0) =>
                  LET end == conn.start + conn.ret IN
                    Len(cur) > end => (P(cur[end + 1]) = cur[end] /\ SubSeq(cur, end + 1, Len(cur)) = SubSeq(conn.before, end + 1, Len(conn.before)))
\* (3) at rest, the update that ended last was for the tip of the server's best chain and returned: the chains are equal
\*     (a server that moved to a LOWER tip -- mono = FALSE -- leaves the ledger holding its chain or a continuation of it)
AtRest == Was("obs") /\ E.q
TConverged == (AtRest /\ last.how = "return" /\ last.tip = Tip(srvc)) =>
                 IF T.mono THEN cur = srvc ELSE IsPrefix(srvc, cur)
\* (4) the rewind loop: at most RR failed rounds in a row, an update gives up only when at least RR held headers are off the
\*     server's chain, and while the server stands still one update sends a bounded number of requests
MaxLen == LET S == {Len(a) : a \in ann} \cup {Len(cur)} IN CHOOSE x \in S : \A y \in S : x >= y
ReqBound == Min(RR, MaxLen) + ((MaxLen + T.cap) \div T.cap) + 1
TRewindBounded == fails <= RR /\ reqs <= ReqBound
TRaiseOnlyDeep == (Was("done") /\ last.how = "raise") => depth >= RR
\* (5) the header lock: one request outstanding at most, connect() never beyond the end of the chain held
TOneAtATime == npend \in {0, 1}
TNoGap == Was("connect") => conn.start <= Len(conn.before)

\* a trace is followed up to its first violated clause (one report per trace)
AllT == /\ TChainValid /\ TPrefixOfAnnounced /\ TOnlyConnectChanges /\ TFollows /\ TNoStaleKept /\ TConverged
        /\ TRewindBounded /\ TRaiseOnlyDeep /\ TOneAtATime /\ TNoGap
TSpec == TInit /\ [][AllT /\ TNext]_tvars

Reached == TLCSet(tid, IF TLCGetOrDefault(tid, 1) > l THEN TLCGetOrDefault(tid, 1) ELSE l)
Report == TLCGet("stats").diameter >= 0 /\ \A t \in 1..Len(TraceLog) :
            PrintT(<<"TRACE", t, IF TLCGetOrDefault(t, 1) - 1 = Len(TraceLog[t].ev) THEN "accepted" ELSE "rejected", TLCGetOrDefault(t, 1) - 1, Len(TraceLog[t].ev)>>)
=============================================================================
