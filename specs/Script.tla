------------------------------- MODULE Script -------------------------------
(* C15 -- script templates of lbry/wallet/script.py as a case-analytic specification.

   A script is a BYTE STREAM.  In the model a stream is a sequence of items: a concrete byte B(x) or an
   opaque run [n bytes, tag] standing for payload bytes nobody interprets (lengths, prefixes, opcodes and
   structure are decided here; payload bytes are filled in by the driver).  The module defines

     PushPrefix(n)          the push encoding chosen for a payload of n bytes (push_data)
     Tokens(stream)         the tokeniser (token_producer / read_data) with the code's quirks NAMED:
                              QuirkShortRead        a push longer than the rest of the script yields the rest, silently
                              QuirkLengthAtEof      PUSHDATA1/2/4 as the last byte yields an empty data token
                              QuirkTruncatedLength  a partial PUSHDATA2/4 length field raises (struct.error): no parse
     OutTemplates, InTemplates, SubTemplates
                            the template table (OutputScript / InputScript), in the code's first-match order
     Parse(ops, toks, ..)   the matcher (Parser.parse / consume_many_non_greedy) with its quirks:
                              QuirkOpZeroOnlyForPushSingle  OP_0 counts as an empty push only where a PUSH_SINGLE is expected
                              QuirkManyNeedsOne             PUSH_MANY takes >= 1 real data tokens, followers are served from the back
                              QuirkLazySubscript            a PUSH_SUBSCRIPT matches ANY data token; the inner script is parsed on demand
     Classify(mode, ..)     first matching template (hint first), "none" if nothing matches / tokeniser raised
     Generate(ops, vals)    Template.generate

   and enumerates the cases the property quantifies over as INITIAL STATES (one variable c).  Kinds:
     push   one payload length at/around every push boundary                  -> expected prefix bytes
     tpl    the template table with the predicates each template must satisfy (driver's decoding table)
     sym    the token alphabet with the byte layout of each symbol
     gen    template x value lengths at the boundaries x lock heights of every byte width
                                                                              -> expected byte layout, expected parse-back
     seq    token sequences: ALL sequences up to MAXLEN over the alphabet of the mode, and every sequence within
            EDITS token edits (substitute / insert / delete / swap neighbours) of an instance of every template
                                                                              -> expected template, class, value binding
     bytes  concrete byte strings: all up to BYTELEN over BYTEALPHA and every string within one byte edit of a
            small instance of every output template (exercises truncation and re-synchronisation)
                                                                              -> expected tokens, template, class
   TLC checks the laws below on the model (Leg A) and emits every case with the expected result (Leg B).
   Multi-signature redeem scripts are outside the property: their templates are in the table because they
   take part in first-match classification, but no law is asserted about them (Outside). *)
EXTENDS Integers, Sequences, FiniteSets, TLC, Json

CONSTANTS MAXLEN,     \* all token sequences up to this length
          EDITS,      \* 1 or 2 token edits around template instances
          BYTELEN,    \* all concrete byte strings up to this length
          FULLGEN,    \* TRUE: full cross product of boundary lengths per template (thorough)
          EMIT,       \* TRUE: print every case as JSON (emission run, one worker)
          PART, NPARTS  \* this run handles the cases whose key = PART modulo NPARTS (parallel emission)

VARIABLES c,      \* the case
          xr      \* what the specification says about it: [tz: Tokenise, r: Classify, class], computed once per case
vars == <<c, xr>>

\* ---------------------------------------------------------------- opcodes (protocol constants)
OP_0 == 0            OP_PUSHDATA1 == 76   OP_PUSHDATA2 == 77   OP_PUSHDATA4 == 78
OP_1 == 81           OP_16 == 96          OP_VERIFY == 105     OP_RETURN == 106
OP_2DROP == 109      OP_DROP == 117       OP_DUP == 118        OP_EQUAL == 135
OP_EQUALVERIFY == 136  OP_HASH160 == 169  OP_CHECKSIG == 172   OP_CHECKMULTISIG == 174
OP_CHECKLOCKTIMEVERIFY == 177
OP_CLAIM_NAME == 181   OP_SUPPORT_CLAIM == 182   OP_UPDATE_CLAIM == 183
PURCHASE_START == 80   \* 'P', Purchase.START_BYTE
HUGE == 2147483647

\* ---------------------------------------------------------------- small helpers
RECURSIVE Flat(_)
Flat(ss) == IF ss = <<>> THEN <<>> ELSE Head(ss) \o Flat(Tail(ss))
RECURSIVE SeqSum(_)
SeqSum(q) == IF q = <<>> THEN 0 ELSE Head(q) + SeqSum(Tail(q))
MinOf(S) == CHOOSE x \in S : \A y \in S : x <= y
InPart(key) == key % NPARTS = PART

\* ---------------------------------------------------------------- byte streams
B(x) == [b |-> x, n |-> 1, t |-> ""]
Bs(q) == [i \in 1..Len(q) |-> B(q[i])]
Opaque(n, t) == IF n = 0 THEN <<>> ELSE <<[b |-> -1, n |-> n, t |-> t]>>
RECURSIVE Size(_)
Size(s) == IF s = <<>> THEN 0 ELSE Head(s).n + Size(Tail(s))
Concrete(s) == \A i \in 1..Len(s) : s[i].b >= 0
\* stream.read(k): at most k bytes, fewer at the end of the stream; an opaque run may be split
RECURSIVE Take(_, _)
Take(s, k) ==
  IF k = 0 \/ s = <<>> THEN [got |-> <<>>, rest |-> s]
  ELSE LET h == Head(s) IN
       IF h.n <= k THEN LET r == Take(Tail(s), k - h.n) IN [got |-> <<h>> \o r.got, rest |-> r.rest]
       ELSE [got |-> <<[h EXCEPT !.n = k]>>, rest |-> <<[h EXCEPT !.n = h.n - k]>> \o Tail(s)]

\* ---------------------------------------------------------------- push encoding (push_data)
PushPrefix(n) ==
  IF n < OP_PUSHDATA1 THEN <<n>>
  ELSE IF n <= 255 THEN <<OP_PUSHDATA1, n>>
  ELSE IF n <= 65535 THEN <<OP_PUSHDATA2, n % 256, n \div 256>>
  ELSE <<OP_PUSHDATA4, n % 256, (n \div 256) % 256, (n \div 65536) % 256, n \div 16777216>>
Push(payload) == Bs(PushPrefix(Size(payload))) \o payload
\* the encodings that CAN carry n bytes, as prefix lengths (for the minimality law)
PrefixLens(n) == (IF n < 76 THEN {1} ELSE {}) \cup (IF n <= 255 THEN {2} ELSE {}) \cup (IF n <= 65535 THEN {3} ELSE {}) \cup {5}

\* ---------------------------------------------------------------- tokens and the tokeniser
Op(v) == [k |-> "op", v |-> v, pl |-> <<>>]
SInt(v) == [k |-> "int", v |-> v, pl |-> <<>>]
Data(pl) == [k |-> "data", v |-> 0, pl |-> pl]

LEVal(q) == IF Len(q) = 1 THEN q[1].b
            ELSE IF Len(q) = 2 THEN q[1].b + 256 * q[2].b
            ELSE IF q[4].b >= 128 THEN HUGE          \* beyond 32 bit in TLC; longer than any script, read() takes the rest
            ELSE q[1].b + 256 * q[2].b + 65536 * q[3].b + 16777216 * q[4].b
\* tr: the result rests on a truncation quirk (a reader that rejects truncated pushes would say "no parse" instead)
ReadData(tok, r) ==
  IF tok < OP_PUSHDATA1
  THEN LET y == Take(r, tok) IN [st |-> "ok", got |-> y.got, rest |-> y.rest, tr |-> Size(y.got) < tok]      \* QuirkShortRead inside Take
  ELSE LET w == IF tok = OP_PUSHDATA1 THEN 1 ELSE IF tok = OP_PUSHDATA2 THEN 2 ELSE 4
           avail == Size(r)
       IN IF avail = 0 THEN [st |-> "ok", got |-> <<>>, rest |-> <<>>, tr |-> TRUE]                          \* QuirkLengthAtEof
          ELSE IF avail < w THEN [st |-> "struct_error", got |-> <<>>, rest |-> <<>>, tr |-> TRUE]           \* QuirkTruncatedLength
          ELSE LET lf == Take(r, w) IN
               IF ~Concrete(lf.got) THEN [st |-> "opaque", got |-> <<>>, rest |-> <<>>, tr |-> FALSE]
               ELSE LET y == Take(lf.rest, LEVal(lf.got)) IN
                    [st |-> "ok", got |-> y.got, rest |-> y.rest, tr |-> Size(y.got) < LEVal(lf.got)]        \* QuirkShortRead
RECURSIVE Tokens(_, _, _)
Tokens(s, acc, tr) ==
  IF s = <<>> THEN [st |-> "ok", toks |-> acc, tr |-> tr]
  ELSE LET h == Head(s)  r == Tail(s) IN
       IF h.b < 0 THEN [st |-> "opaque", toks |-> acc, tr |-> tr]   \* an opcode position inside uninterpreted payload: never in emitted cases (Aligned)
       ELSE IF h.b >= 1 /\ h.b <= OP_PUSHDATA4
            THEN LET rd == ReadData(h.b, r) IN
                 IF rd.st # "ok" THEN [st |-> rd.st, toks |-> acc, tr |-> tr \/ rd.tr]
                 ELSE Tokens(rd.rest, Append(acc, Data(rd.got)), tr \/ rd.tr)
       ELSE IF h.b >= OP_1 /\ h.b <= OP_16 THEN Tokens(r, Append(acc, SInt(h.b - OP_1 + 1)), tr)
       ELSE Tokens(r, Append(acc, Op(h.b)), tr)
Tokenise(s) == Tokens(s, <<>>, FALSE)
\* the bytes a token is written as when it is (re)encoded minimally
TokBytes(tk) == IF tk.k = "op" THEN <<B(tk.v)>> ELSE IF tk.k = "int" THEN <<B(OP_1 + tk.v - 1)>> ELSE Push(tk.pl)
Layout(toks) == Flat([i \in 1..Len(toks) |-> TokBytes(toks[i])])

\* ---------------------------------------------------------------- the template table
O(v) == [k |-> "op", v |-> v, name |-> "", hint |-> ""]
S(nm) == [k |-> "single", v |-> -1, name |-> nm, hint |-> ""]
I(nm) == [k |-> "integer", v |-> -1, name |-> nm, hint |-> ""]
M(nm) == [k |-> "many", v |-> -1, name |-> nm, hint |-> ""]
N(nm) == [k |-> "smallint", v |-> -1, name |-> nm, hint |-> ""]
Sub(nm, h) == [k |-> "sub", v |-> -1, name |-> nm, hint |-> h]
IsPushOp(op) == op.k \in {"single", "integer", "many", "sub"}     \* is_push_data_opcode

PKH == <<O(OP_DUP), O(OP_HASH160), S("pubkey_hash"), O(OP_EQUALVERIFY), O(OP_CHECKSIG)>>
SH == <<O(OP_HASH160), S("script_hash"), O(OP_EQUAL)>>
CLAIM == <<O(OP_CLAIM_NAME), S("claim_name"), S("claim"), O(OP_2DROP), O(OP_DROP)>>
SUPPORT == <<O(OP_SUPPORT_CLAIM), S("claim_name"), S("claim_id"), O(OP_2DROP), O(OP_DROP)>>
SUPPORTDATA == <<O(OP_SUPPORT_CLAIM), S("claim_name"), S("claim_id"), S("support"), O(OP_2DROP), O(OP_2DROP)>>
UPDATE == <<O(OP_UPDATE_CLAIM), S("claim_name"), S("claim_id"), S("claim"), O(OP_2DROP), O(OP_2DROP)>>
T(nm, pre, lock, ops) == [name |-> nm, pre |-> pre, lock |-> lock, ops |-> ops]
OutTemplates == <<
  T("pay_pubkey_full", "", "pubkey_full", <<S("pubkey"), O(OP_CHECKSIG)>>),
  T("pay_pubkey_hash", "", "pubkey_hash", PKH),
  T("pay_script_hash", "", "script_hash", SH),
  T("pay_script_hash+segwit", "", "segwit", <<O(OP_0), S("script_hash")>>),
  T("return_data", "", "return_data", <<O(OP_RETURN), S("data")>>),
  T("claim_name+pay_pubkey_hash", "claim_name", "pubkey_hash", CLAIM \o PKH),
  T("claim_name+pay_script_hash", "claim_name", "script_hash", CLAIM \o SH),
  T("support_claim+pay_pubkey_hash", "support_claim", "pubkey_hash", SUPPORT \o PKH),
  T("support_claim+pay_script_hash", "support_claim", "script_hash", SUPPORT \o SH),
  T("support_claim+data+pay_pubkey_hash", "support_claim+data", "pubkey_hash", SUPPORTDATA \o PKH),
  T("support_claim+data+pay_script_hash", "support_claim+data", "script_hash", SUPPORTDATA \o SH),
  T("update_claim+pay_pubkey_hash", "update_claim", "pubkey_hash", UPDATE \o PKH),
  T("update_claim+pay_script_hash", "update_claim", "script_hash", UPDATE \o SH) >>
TIMELOCK == T("timelock", "", "in", <<I("height"), O(OP_CHECKLOCKTIMEVERIFY), O(OP_DROP)>> \o PKH)
MULTISIG == T("multi_sig", "", "in", <<N("signatures_count"), M("pubkeys"), N("pubkeys_count"), O(OP_CHECKMULTISIG)>>)
InTemplates == <<
  T("pubkey", "", "in", <<S("signature")>>),
  T("pubkey_hash", "", "in", <<S("signature"), S("pubkey")>>),
  T("script_hash+timelock", "", "in", <<S("signature"), S("pubkey"), Sub("script", "timelock")>>),
  T("script_hash+multi_sig", "", "in", <<O(OP_0), M("signatures"), Sub("script", "multi_sig")>>) >>
SubTemplates == <<TIMELOCK, MULTISIG>>
AllTemplates == OutTemplates \o InTemplates \o SubTemplates
ByName(nm) == LET i == CHOOSE j \in 1..Len(AllTemplates) : AllTemplates[j].name = nm IN AllTemplates[i]
Outside == {"multi_sig", "script_hash+multi_sig"}       \* multi-signature redeem scripts: not part of the property
NOSCRIPT == T("no_script", "", "none", <<>>)
NONE == T("none", "", "none", <<>>)

\* what each predicate of the code must answer for a script of a given template (the property's reading)
Preds(t) == [is_pay_pubkey |-> t.lock = "pubkey_full", is_pay_pubkey_hash |-> t.lock = "pubkey_hash",
             is_pay_script_hash |-> t.lock = "script_hash", is_return_data |-> t.lock = "return_data",
             is_claim_name |-> t.pre = "claim_name", is_update_claim |-> t.pre = "update_claim",
             is_support_claim |-> t.pre \in {"support_claim", "support_claim+data"},
             is_support_claim_data |-> t.pre = "support_claim+data", is_claim_involved |-> t.pre # "",
             is_claim |-> t.pre \in {"claim_name", "update_claim"}, is_pubkey_hash |-> t.lock = "pubkey_hash"]
ClaimClasses == {"claim", "update", "support", "support_data"}
PayClasses == {"payment", "script_hash", "pubkey_full", "segwit", "data", "purchase_data"}

\* ---------------------------------------------------------------- the matcher (Parser.parse)
FAIL == [ok |-> FALSE, bind |-> <<>>]
RunLen(n, from, Stop(_)) == LET ends == {j \in from..n : Stop(j)} IN IF ends = {} THEN n - from + 1 ELSE MinOf(ends) - from
RECURSIVE Parse(_, _, _, _, _)
ConsumeMany(ops, toks, ti, oi, bind) ==                 \* consume_many_non_greedy; toks[ti] is a real data token, ops[oi] is PUSH_MANY
  LET NotData(j) == toks[j].k # "data"
      NotPush(j) == ~IsPushOp(ops[j])
      dr == RunLen(Len(toks), ti, NotData)              \* consecutive data tokens (OP_0 is NOT one of them here)
      pr == RunLen(Len(ops), oi, NotPush)               \* consecutive push opcodes of the template
      manyCount == Cardinality({j \in oi..(oi + pr - 1) : ops[j].k = "many"})
      nMany == dr - (pr - 1)                            \* QuirkManyNeedsOne: followers are served from the back, the rest goes to PUSH_MANY
      bind2 == [j \in 1..Len(toks) |->
                  IF j >= ti /\ j < ti + nMany THEN ops[oi].name
                  ELSE IF j >= ti + nMany /\ j < ti + dr THEN ops[oi + 1 + (j - (ti + nMany))].name
                  ELSE bind[j]]
  IN IF manyCount > 1 \/ pr > dr THEN FAIL
     ELSE Parse(ops, toks, IF ti + dr > Len(toks) THEN Len(toks) + 1 ELSE ti + dr,
                           IF oi + pr > Len(ops) THEN Len(ops) + 1 ELSE oi + pr, bind2)
Parse(ops, toks, ti, oi, bind) ==
  IF ti <= Len(toks) /\ oi <= Len(ops) THEN
    LET raw == toks[ti]
        op == ops[oi]
        asEmpty == raw.k = "op" /\ raw.v = OP_0 /\ op.k = "single"          \* QuirkOpZeroOnlyForPushSingle
    IN IF raw.k = "data" \/ asEmpty THEN
         IF op.k \in {"single", "integer", "sub"}                            \* QuirkLazySubscript: "sub" binds any data token
         THEN Parse(ops, toks, ti + 1, oi + 1, [bind EXCEPT ![ti] = op.name])
         ELSE IF op.k = "many" THEN ConsumeMany(ops, toks, ti, oi, bind)
         ELSE FAIL
       ELSE IF raw.k = "int" THEN
         IF op.k = "smallint" THEN Parse(ops, toks, ti + 1, oi + 1, [bind EXCEPT ![ti] = op.name]) ELSE FAIL
       ELSE IF op.k = "op" /\ op.v = raw.v THEN Parse(ops, toks, ti + 1, oi + 1, bind)
       ELSE FAIL
  ELSE IF ti <= Len(toks) THEN FAIL            \* tokens left over
  ELSE IF oi <= Len(ops) THEN FAIL             \* opcodes left over
  ELSE [ok |-> TRUE, bind |-> bind]
Match(t, toks) == Parse(t.ops, toks, 1, 1, [i \in 1..Len(toks) |-> ""])

\* Script.parse: hint first, then the class's table; empty script without hint is "no_script"; an exception is "none"
\* modes: "out" OutputScript(source); "in" InputScript(source); "tl" InputScript with the time-lock template as hint (how
\* redeem_time_lock_script_hash reads a script_source); "sub" the inner script of a PUSH_SUBSCRIPT, which the parser wraps in
\* the BASE class Script (empty table): only the hint is tried
Cands(mode) == IF mode = "out" THEN OutTemplates ELSE IF mode = "in" THEN InTemplates
               ELSE IF mode = "tl" THEN <<TIMELOCK>> \o InTemplates ELSE <<TIMELOCK>>
Matching(mode, toks) == {i \in 1..Len(Cands(mode)) : Match(Cands(mode)[i], toks).ok}
Classify(mode, tz) ==
  IF tz.st # "ok" THEN [t |-> NONE, bind |-> <<>>, amb |-> {}]
  ELSE IF tz.toks = <<>> /\ mode \in {"out", "in"} THEN [t |-> NOSCRIPT, bind |-> <<>>, amb |-> {}]
  ELSE LET ms == Matching(mode, tz.toks) IN
       IF ms = {} THEN [t |-> NONE, bind |-> [i \in 1..Len(tz.toks) |-> ""], amb |-> {}]
       ELSE LET t == Cands(mode)[MinOf(ms)] IN
            [t |-> t, bind |-> Match(t, tz.toks).bind, amb |-> {Cands(mode)[i].name : i \in ms}]
\* the value bound to a field: payload of the bound token (OP_0 bound as PUSH_SINGLE has the empty payload anyway)
BoundAt(toks, bind, nm) == {i \in 1..Len(toks) : bind[i] = nm}
StartsWithP(pl) == pl # <<>> /\ pl[1].b = PURCHASE_START
ClassOf(r, toks) ==
  LET t == r.t IN
  IF t.name \in {"none", "no_script"} THEN t.name
  ELSE IF t.pre = "claim_name" THEN "claim" ELSE IF t.pre = "update_claim" THEN "update"
  ELSE IF t.pre = "support_claim" THEN "support" ELSE IF t.pre = "support_claim+data" THEN "support_data"
  ELSE IF t.lock = "return_data"
       THEN (IF \E i \in BoundAt(toks, r.bind, "data") : StartsWithP(toks[i].pl) THEN "purchase_data" ELSE "data")
  ELSE IF t.lock = "pubkey_hash" THEN "payment"
  ELSE t.lock
\* the declarative reading of "its opcodes say so" for output scripts: the token KINDS equal the template's shape,
\* with OP_0 counting as a push.  Independent of the matching procedure above.
IsPush(tk) == tk.k = "data" \/ (tk.k = "op" /\ tk.v = OP_0)
Fits(t, toks) == /\ Len(toks) = Len(t.ops)
                 /\ \A i \in 1..Len(toks) : IF t.ops[i].k = "op" THEN toks[i].k = "op" /\ toks[i].v = t.ops[i].v ELSE IsPush(toks[i])
Fitting(toks) == {i \in 1..Len(OutTemplates) : Fits(OutTemplates[i], toks)}

\* ---------------------------------------------------------------- Template.generate
\* a value: [n: length of a PUSH_SINGLE payload or the small integer, h: limbs of a PUSH_INTEGER (little endian, base 256,
\* no leading zero limb), m: lengths of a PUSH_MANY, s: values of the inner script of a PUSH_SUBSCRIPT]
V(n) == [n |-> n, h |-> <<>>, m |-> <<>>, s |-> <<>>]
VH(h) == [n |-> 0, h |-> h, m |-> <<>>, s |-> <<>>]
VS(s) == [n |-> 0, h |-> <<>>, m |-> <<>>, s |-> s]
\* int.to_bytes((bit_length + 8) // 8, 'little', signed=True) for h >= 0: the limbs, plus 00 when the top bit is set; 0 is 00
IntBytes(h) == IF h = <<>> THEN <<0>> ELSE IF h[Len(h)] >= 128 THEN Append(h, 0) ELSE h
RECURSIVE StripZeros(_)
StripZeros(q) == IF q # <<>> /\ q[Len(q)] = 0 THEN StripZeros(SubSeq(q, 1, Len(q) - 1)) ELSE q     \* int.from_bytes(.., 'little') as limbs
RECURSIVE Generate(_, _)
GenOp(op, v) ==
  IF op.k = "op" THEN <<B(op.v)>>
  ELSE IF op.k = "single" THEN Push(Opaque(v.n, op.name))
  ELSE IF op.k = "integer" THEN Push(Bs(IntBytes(v.h)))
  ELSE IF op.k = "sub" THEN Push(Generate(ByName(op.hint).ops, v.s))
  ELSE IF op.k = "many" THEN Flat([i \in 1..Len(v.m) |-> Push(Opaque(v.m[i], op.name))])
  ELSE <<B(OP_1 + v.n - 1)>>
\* vals: one value per NON-literal opcode of the template, in template order
Generate(ops, vals) ==
  IF ops = <<>> THEN <<>>
  ELSE IF Head(ops).k = "op" THEN GenOp(Head(ops), V(0)) \o Generate(Tail(ops), vals)
  ELSE GenOp(Head(ops), Head(vals)) \o Generate(Tail(ops), Tail(vals))
Fields(ops) == SelectSeq(ops, LAMBDA op : op.k # "op")

\* ---------------------------------------------------------------- case generation: push, gen
Boundaries == {0, 1, 75, 76, 255, 256, 65535, 65536, 70000}
PushLens == Boundaries \cup {2, 20, 33, 74, 77, 254, 257, 65534, 65537, 69999}
Heights == {<<>>, <<1>>, <<16>>, <<17>>, <<127>>, <<128>>, <<255>>, <<0, 1>>, <<255, 127>>, <<0, 128>>, <<255, 255>>,
            <<0, 0, 1>>, <<255, 255, 127>>, <<0, 0, 128>>, <<255, 255, 255>>, <<0, 0, 0, 1>>, <<0, 101, 205, 29>>,
            <<255, 255, 255, 127>>, <<0, 0, 0, 128>>, <<255, 255, 255, 255>>}
Typical(nm) == IF nm = "pubkey" THEN 33 ELSE IF nm \in {"pubkey_hash", "script_hash", "claim_id"} THEN 20
               ELSE IF nm = "claim_name" THEN 3 ELSE IF nm = "claim" THEN 100 ELSE IF nm = "support" THEN 30
               ELSE IF nm = "data" THEN 23 ELSE 72
\* length vectors for a template whose non-literal opcodes are all PUSH_SINGLE
LenVecs(t) ==
  LET fs == Fields(t.ops)  k == Len(fs)
      typ == [i \in 1..k |-> Typical(fs[i].name)]
  IN IF FULLGEN THEN [1..k -> Boundaries \ {70000}] \cup {[i \in 1..k |-> 70000]}
     ELSE {[typ EXCEPT ![i] = L] : i \in 1..k, L \in Boundaries} \cup {[i \in 1..k |-> L] : L \in Boundaries} \cup {typ}
PlainTemplates == {OutTemplates[i] : i \in 1..Len(OutTemplates)} \cup {InTemplates[1], InTemplates[2]}
GenPlain == {[kind |-> "gen", mode |-> IF t.lock = "in" THEN "in" ELSE "out", tpl |-> t.name, vals |-> [i \in 1..Len(lv) |-> V(lv[i])]]
               : <<t, lv>> \in UNION {{<<t, lv>> : lv \in LenVecs(t)} : t \in PlainTemplates}}
GenTimelock == {[kind |-> "gen", mode |-> "tl", tpl |-> "timelock", vals |-> <<VH(h), V(L)>>]
                  : <<h, L>> \in (Heights \X {20}) \cup ({<<0, 101, 205, 29>>} \X Boundaries)}
GenRedeemTL == {[kind |-> "gen", mode |-> "in", tpl |-> "script_hash+timelock", vals |-> <<V(s), V(p), VS(<<VH(h), V(L)>>)>>]
                  : <<s, p, h, L>> \in ((IF FULLGEN THEN Boundaries ELSE {0, 72, 75, 76}) \X {0, 33, 76} \X Heights \X {20})
                                    \cup ({72} \X {33} \X {<<64, 66, 15>>} \X Boundaries)
                                    \cup (Boundaries \X Boundaries \X {<<64, 66, 15>>} \X {20})}
GenKey(g) == Len(g.vals) + SeqSum([i \in 1..Len(g.vals) |-> (g.vals[i].n % 7) + Len(g.vals[i].h)])
GenCases == {g \in GenPlain \cup GenTimelock \cup GenRedeemTL : InPart(GenKey(g))}
GenLayout(g) == Generate(ByName(g.tpl).ops, g.vals)

\* ---------------------------------------------------------------- case generation: token sequences
TLPayload == Generate(TIMELOCK.ops, <<VH(<<16, 39>>), V(20)>>)
MSPayload == Generate(MULTISIG.ops, <<V(2), [n |-> 0, h |-> <<>>, m |-> <<33, 33>>, s |-> <<>>], V(2)>>)
SYM == << Op(OP_DUP), Op(OP_HASH160), Op(OP_EQUALVERIFY), Op(OP_CHECKSIG), Op(OP_EQUAL), Op(OP_0), Op(OP_RETURN),       \* 1..7
          Op(OP_CLAIM_NAME), Op(OP_SUPPORT_CLAIM), Op(OP_UPDATE_CLAIM), Op(OP_2DROP), Op(OP_DROP),                      \* 8..12
          Op(OP_CHECKMULTISIG), Op(OP_CHECKLOCKTIMEVERIFY), Op(OP_VERIFY),                                                \* 13..15
          SInt(2),                                                                                                        \* 16
          Data(Opaque(3, "x")), Data(<<B(PURCHASE_START)>> \o Opaque(22, "pm")), Data(Opaque(20, "x")),                  \* 17..19
          Data(Opaque(33, "x")), Data(Opaque(76, "x")),                                                                  \* 20..21
          Data(TLPayload), Data(MSPayload), Data(Bs(<<16, 39>>)),                                                        \* 22..24
          SInt(1), SInt(16) >>                                                                                           \* 25..26 (edit alphabet only)
NSYM == Len(SYM)
SymOfOp(v) == CHOOSE i \in 1..NSYM : SYM[i].k = "op" /\ SYM[i].v = v
FieldSym(op) == IF op.k = "op" THEN <<SymOfOp(op.v)>>
                ELSE IF op.k = "smallint" THEN <<16>>
                ELSE IF op.k = "integer" THEN <<24>>
                ELSE IF op.k = "sub" THEN (IF op.hint = "timelock" THEN <<22>> ELSE <<23>>)
                ELSE IF op.k = "many" THEN (IF op.name = "pubkeys" THEN <<20, 20>> ELSE <<17, 17>>)
                ELSE IF op.name = "pubkey" THEN <<20>>
                ELSE IF op.name \in {"pubkey_hash", "script_hash", "claim_id"} THEN <<19>>
                ELSE IF op.name = "claim" THEN <<21>>
                ELSE IF op.name = "data" THEN <<18>>
                ELSE <<17>>
Instance(t) == Flat([i \in 1..Len(t.ops) |-> FieldSym(t.ops[i])])
Toks(syms) == [i \in 1..Len(syms) |-> SYM[syms[i]]]

Insert(q, p, y) == SubSeq(q, 1, p - 1) \o <<y>> \o SubSeq(q, p, Len(q))
Replace(q, p, y) == [q EXCEPT ![p] = y]
Delete(q, p) == SubSeq(q, 1, p - 1) \o SubSeq(q, p + 1, Len(q))
Swap(q, p) == [q EXCEPT ![p] = q[p + 1], ![p + 1] = q[p]]
\* one edit as a value, so that the neighbourhoods are enumerated by \E (no big sets); an edit that does not apply is the identity
ED(t, p, y) == [t |-> t, p |-> p, y |-> y]
EditOps(n, A) == {ED("id", 0, 0)} \cup {ED("ins", p, y) : p \in 1..(n + 1), y \in A} \cup {ED("sub", p, y) : p \in 1..n, y \in A}
                   \cup {ED("del", p, 0) : p \in 1..n} \cup {ED("swap", p, 0) : p \in 1..(n - 1)}
Ap(q, e) == IF e.t = "ins" /\ e.p <= Len(q) + 1 THEN Insert(q, e.p, e.y)
            ELSE IF e.t = "sub" /\ e.p <= Len(q) THEN Replace(q, e.p, e.y)
            ELSE IF e.t = "del" /\ e.p <= Len(q) THEN Delete(q, e.p)
            ELSE IF e.t = "swap" /\ e.p < Len(q) THEN Swap(q, e.p)
            ELSE q
Edits1(q, A) == {Ap(q, e) : e \in EditOps(Len(q), A)}
AllSeqs(A, n) == UNION {[1..k -> A] : k \in 0..n}

ModeTemplates(mode) == IF mode = "out" THEN {OutTemplates[i] : i \in 1..Len(OutTemplates)}
                       ELSE IF mode = "in" THEN {InTemplates[i] : i \in 1..Len(InTemplates)} ELSE {TIMELOCK}
ExtraInstances(mode) == IF mode = "out" THEN {<<7, 17>>} ELSE IF mode = "in" THEN {<<6, 17, 23>>, <<6, 20, 22>>} ELSE {}
Instances(mode) == {Instance(t) : t \in ModeTemplates(mode)} \cup ExtraInstances(mode)
Alpha(mode) == IF mode = "out" THEN (1..12) \cup (15..21)
               ELSE IF mode = "in" THEN {4, 6, 13, 15, 16, 17, 20, 22, 23}
               ELSE {1, 2, 3, 4, 6, 12, 14, 15, 16, 19, 24}
ModeLen(mode) == IF mode = "tl" THEN MAXLEN - 1 ELSE MAXLEN
SeqKey(q) == SeqSum(q) + Len(q)
SeqCase(mode, q) == [kind |-> "seq", mode |-> mode, syms |-> q]
\* (a) every sequence up to the length bound over the mode's alphabet
SeqCasesAll(mode) == {SeqCase(mode, q) : q \in {y \in AllSeqs(Alpha(mode), ModeLen(mode)) : InPart(SeqKey(y))}}
\* (b) every sequence within EDITS edits (over the WHOLE alphabet) of an instance of every template of the mode
IsNeighbour(cc, mode) ==
  \E q \in Instances(mode) : \E e1 \in EditOps(Len(q), 1..NSYM) :
     \E e2 \in (IF EDITS = 1 THEN {ED("id", 0, 0)} ELSE EditOps(Len(q) + 1, 1..NSYM)) :
        LET u == Ap(Ap(q, e1), e2) IN InPart(SeqKey(u)) /\ cc = SeqCase(mode, u)

\* ---------------------------------------------------------------- case generation: concrete byte strings
BYTEALPHA == {0, 1, 2, 3, 75, 76, 77, 78, 79, 80, 81, 96, 97, 106, 117, 118, 136, 169, 172, 181, 182, 255}
RECURSIVE Concretise(_)
Concretise(s) == IF s = <<>> THEN <<>>
                 ELSE (IF Head(s).b >= 0 THEN <<Head(s).b>> ELSE [j \in 1..Head(s).n |-> 7]) \o Concretise(Tail(s))
ByteInstance(t) == Concretise(Generate(t.ops, [i \in 1..Len(Fields(t.ops)) |-> V(1)]))
ByteInstances == {ByteInstance(OutTemplates[i]) : i \in 1..Len(OutTemplates)}
                   \cup {<<106, 1, 80>>, <<106, 76, 2, 80, 7>>, <<106, 77, 1, 0, 80>>, <<106, 78, 1, 0, 0, 0, 80>>}
ByteSet == AllSeqs(BYTEALPHA, BYTELEN) \cup UNION {Edits1(q, BYTEALPHA) : q \in ByteInstances}
ByteCases(mode) == {[kind |-> "bytes", mode |-> mode, bs |-> q] : q \in {y \in ByteSet : InPart(SeqKey(y))}}

\* ---------------------------------------------------------------- derived per-case results
\* inner script of a bound PUSH_SUBSCRIPT (parsed on demand, with the sub-template as hint)
SubHint(t) == LET ss == {i \in 1..Len(t.ops) : t.ops[i].k = "sub"} IN IF ss = {} THEN "" ELSE t.ops[MinOf(ss)].hint
InnerOf(r, toks) ==
  LET at == BoundAt(toks, r.bind, "script") IN
  IF SubHint(r.t) # "timelock" \/ at = {} THEN [known |-> FALSE, name |-> "", vals |-> <<>>]
  ELSE LET tz == Tokenise(toks[MinOf(at)].pl)
           ir == Classify("sub", tz) IN
       IF tz.st = "opaque" THEN [known |-> FALSE, name |-> "", vals |-> <<>>]
       ELSE [known |-> TRUE, name |-> ir.t.name,
             vals |-> [i \in 1..Len(ir.bind) |-> [f |-> ir.bind[i], pl |-> tz.toks[i].pl]]]
\* values in token order: <<field, payload>> of every bound token
BoundVals(r, toks) == LET idx == SelectSeq([i \in 1..Len(toks) |-> i], LAMBDA i : r.bind[i] # "")
                      IN [j \in 1..Len(idx) |-> <<r.bind[idx[j]], IF toks[idx[j]].k = "int" THEN <<toks[idx[j]].v>> ELSE toks[idx[j]].pl>>]
\* values a gen case put in, in template order (PUSH_MANY flattened)
RECURSIVE GivenVals(_, _)
GivenVals(fs, vals) ==
  IF fs = <<>> THEN <<>>
  ELSE LET op == Head(fs)  v == Head(vals) IN
       (IF op.k = "single" THEN <<<<op.name, Opaque(v.n, op.name)>>>>
        ELSE IF op.k = "integer" THEN <<<<op.name, Bs(IntBytes(v.h))>>>>
        ELSE IF op.k = "sub" THEN <<<<op.name, Generate(ByName(op.hint).ops, v.s)>>>>
        ELSE IF op.k = "many" THEN [i \in 1..Len(v.m) |-> <<op.name, Opaque(v.m[i], op.name)>>]
        ELSE <<<<op.name, <<v.n>>>>>>) \o GivenVals(Tail(fs), Tail(vals))
Parsed == c.kind \in {"gen", "seq", "bytes"}
StreamOf(cc) == IF cc.kind = "gen" THEN GenLayout(cc) ELSE IF cc.kind = "seq" THEN Layout(Toks(cc.syms)) ELSE Bs(cc.bs)
Compute(cc) ==
  IF cc.kind \notin {"gen", "seq", "bytes"} THEN [tz |-> [st |-> "ok", toks |-> <<>>, tr |-> FALSE], r |-> [t |-> NONE, bind |-> <<>>, amb |-> {}], class |-> "", inner |-> <<>>]
  ELSE LET tz == Tokenise(StreamOf(cc))
           r == Classify(cc.mode, tz)
       IN [tz |-> tz, r |-> r, class |-> ClassOf(r, tz.toks), inner |-> IF cc.mode = "in" THEN InnerOf(r, tz.toks) ELSE <<>>]

\* ---------------------------------------------------------------- the cases
PushCases == {[kind |-> "push", n |-> n] : n \in {y \in PushLens : PART = 0}}
TplCases == {[kind |-> "tpl", idx |-> i] : i \in {y \in 1..Len(AllTemplates) : PART = 0}}
SymCases == {[kind |-> "sym", idx |-> i] : i \in {y \in 1..NSYM : PART = 0}}
Init == /\ \/ c \in PushCases \/ c \in TplCases \/ c \in SymCases \/ c \in GenCases
           \/ c \in SeqCasesAll("out") \/ c \in SeqCasesAll("in") \/ c \in SeqCasesAll("tl")
           \/ IsNeighbour(c, "out") \/ IsNeighbour(c, "in") \/ IsNeighbour(c, "tl")
           \/ c \in ByteCases("out") \/ c \in ByteCases("in")
        /\ xr = Compute(c)
Next == UNCHANGED vars
Spec == Init /\ [][Next]_vars

\* ---------------------------------------------------------------- what TLC checks on the model (Leg A)
\* L1 the chosen push encoding is the shortest that can carry the length, and reads back as exactly that payload
PushMinimal == c.kind = "push" => Len(PushPrefix(c.n)) = MinOf(PrefixLens(c.n))
PushReadBack == c.kind = "push" =>
   LET tz == Tokenise(Push(Opaque(c.n, "x"))) IN
     /\ tz.st = "ok" /\ Len(tz.toks) = 1
     /\ IF c.n = 0 THEN tz.toks[1] = Op(OP_0) ELSE tz.toks[1] = Data(Opaque(c.n, "x"))
\* L2 generate then parse: same template, same values (outer and inner script), for every template in the claim
GenRoundTrip == c.kind = "gen" =>
   /\ xr.tz.st = "ok" /\ ~xr.tz.tr
   /\ xr.r.t.name = c.tpl
   /\ BoundVals(xr.r, xr.tz.toks) = GivenVals(Fields(ByName(c.tpl).ops), c.vals)
   /\ c.tpl = "script_hash+timelock" =>
          /\ xr.inner.known /\ xr.inner.name = "timelock"
          /\ LET hs == SelectSeq(xr.inner.vals, LAMBDA y : y.f = "height") IN
               Len(hs) = 1 /\ StripZeros([i \in 1..Len(hs[1].pl) |-> hs[1].pl[i].b]) = c.vals[3].s[1].h
\*    the height comes back exactly, and its bytes are a minimal non-negative script number (top bit clear, no padding
\*    beyond the one 00 that clears it), which is what OP_CHECKLOCKTIMEVERIFY reads
GenHeightExact == (c.kind = "gen" /\ c.tpl = "timelock") =>
   LET at == BoundAt(xr.tz.toks, xr.r.bind, "height") IN
     at # {} /\ LET pl == xr.tz.toks[MinOf(at)].pl
                    q == [i \in 1..Len(pl) |-> pl[i].b] IN
                /\ StripZeros(q) = c.vals[1].h
                /\ Len(q) >= 1 /\ q[Len(q)] < 128
                /\ (Len(q) > 1 /\ q[Len(q)] = 0) => q[Len(q) - 1] >= 128
\* L3 tokenising the minimal encoding of a token sequence returns the token sequence
SeqEncodeDecode == c.kind = "seq" => (xr.tz.st = "ok" /\ ~xr.tz.tr /\ xr.tz.toks = Toks(c.syms))
\* L4 the tokeniser never has to interpret payload bytes in any emitted case
Aligned == xr.tz.st # "opaque"
\* L5 output scripts: at most one template matches (first-match order is immaterial), and the procedure's answer is the
\*    declarative one: the matched template is exactly the one whose shape the token kinds have
OutCase == c.kind \in {"seq", "bytes"} /\ c.mode = "out" /\ xr.tz.st = "ok"
OutUnambiguous == OutCase => Cardinality(xr.r.amb) <= 1
OutDeclarative == OutCase => xr.r.amb = {OutTemplates[i].name : i \in Fitting(xr.tz.toks)}
\* L6 the safety core: a script that begins with a claim / support / update opcode is never a payment class, and a script of
\*    a claim class begins with the opcode of that class
FirstOp == IF xr.tz.st = "ok" /\ xr.tz.toks # <<>> /\ xr.tz.toks[1].k = "op" THEN xr.tz.toks[1].v ELSE -1
ClaimNeverPayment == (c.kind \in {"seq", "bytes"} /\ c.mode = "out" /\ FirstOp \in {OP_CLAIM_NAME, OP_SUPPORT_CLAIM, OP_UPDATE_CLAIM})
                        => xr.class \in ClaimClasses \cup {"none"}
PaymentNeverClaim == (c.kind \in {"seq", "bytes"} /\ c.mode = "out" /\ xr.class \in ClaimClasses) =>
                        FirstOp = (IF xr.class = "claim" THEN OP_CLAIM_NAME ELSE IF xr.class = "update" THEN OP_UPDATE_CLAIM ELSE OP_SUPPORT_CLAIM)
\* L7 redeem scripts in the claim: the only ambiguity of the input table involves a multi-signature template
InAmbiguityOnlyMultisig == (c.kind \in {"seq", "bytes"} /\ c.mode \in {"in", "tl"} /\ Cardinality(xr.r.amb) > 1) => xr.r.amb \cap Outside # {}
\* reachability witnesses for the antecedents above (each must be VIOLATED in a witness run)
WitClaimFirst == ~(c.kind = "seq" /\ c.mode = "out" /\ FirstOp = OP_CLAIM_NAME /\ xr.class = "none")
WitClaimClass == ~(c.kind = "seq" /\ c.mode = "out" /\ xr.class = "support_data")
WitAmbiguous == ~(c.kind = "seq" /\ c.mode = "in" /\ Cardinality(xr.r.amb) > 1)
WitGenTL == ~(c.kind = "gen" /\ c.tpl = "script_hash+timelock" /\ c.vals[1].n = 0)

\* ---------------------------------------------------------------- emission (Leg B): one JSON line per case
ItemsJ(s) == [i \in 1..Len(s) |-> IF s[i].b >= 0 THEN <<s[i].b>> ELSE <<s[i].n, s[i].t>>]
TokJ(tk) == [k |-> tk.k, v |-> tk.v, pl |-> ItemsJ(tk.pl)]
RECURSIVE SetSeq(_)
SetSeq(X) == IF X = {} THEN <<>> ELSE LET y == CHOOSE z \in X : TRUE IN <<y>> \o SetSeq(X \ {y})
InnerJ(y) == IF y = <<>> THEN [known |-> FALSE, name |-> "", vals |-> <<>>]
             ELSE [known |-> y.known, name |-> y.name, vals |-> [i \in 1..Len(y.vals) |-> [f |-> y.vals[i].f, pl |-> ItemsJ(y.vals[i].pl)]]]
Case ==
  IF c.kind = "push" THEN [kind |-> "push", n |-> c.n, prefix |-> PushPrefix(c.n)]
  ELSE IF c.kind = "tpl" THEN LET t == AllTemplates[c.idx] IN
       [kind |-> "tpl", idx |-> c.idx, name |-> t.name, pre |-> t.pre, lock |-> t.lock, ops |-> t.ops, preds |-> Preds(t),
        table |-> IF c.idx <= Len(OutTemplates) THEN "out" ELSE IF c.idx <= Len(OutTemplates) + Len(InTemplates) THEN "in" ELSE "sub",
        outside |-> t.name \in Outside]
  ELSE IF c.kind = "sym" THEN [kind |-> "sym", idx |-> c.idx, tok |-> TokJ(SYM[c.idx]), lay |-> ItemsJ(TokBytes(SYM[c.idx]))]
  ELSE IF c.kind = "gen" THEN
       [kind |-> "gen", mode |-> c.mode, tpl |-> c.tpl, vals |-> c.vals, lay |-> ItemsJ(StreamOf(c)),
        name |-> xr.r.t.name, inner |-> InnerJ(xr.inner)]
  ELSE IF c.kind = "seq" THEN
       [kind |-> "seq", mode |-> c.mode, syms |-> c.syms, name |-> xr.r.t.name, class |-> xr.class, bind |-> xr.r.bind,
        amb |-> SetSeq(xr.r.amb), inner |-> InnerJ(xr.inner)]
  ELSE [kind |-> "bytes", mode |-> c.mode, bs |-> c.bs, st |-> xr.tz.st, tr |-> xr.tz.tr, toks |-> [i \in 1..Len(xr.tz.toks) |-> TokJ(xr.tz.toks[i])],
        name |-> xr.r.t.name, class |-> xr.class, bind |-> xr.r.bind, amb |-> SetSeq(xr.r.amb)]
Emit == EMIT => PrintT(<<"CASE", ToJson(Case)>>)
=============================================================================
