---------------------------- MODULE ReserveTrace ----------------------------
(* Trace validation for C14: 2..12 real Transaction.create calls run concurrently on one real Ledger / sqlite
   Database under the deterministic loop; the driver chooses when each build arrives and when a finished build is
   broadcast or abandoned.  After every scheduler step it logs the is_reserved column and the spent set (read with a
   separate sqlite connection); when a build returns it logs the inputs of the returned transaction.

   TRACE_FILE: JSON array of [n (number of wallet outputs), ev |-> <<[event, b, inputs, obs |-> [reserved, spent]]>>]
   events: Arrive(b) Tick Built(b, inputs) Failed(b) Broadcast(b) Abandon(b) End.  Outputs are 1..n; 0 = not a wallet output. *)
EXTENDS Naturals, Sequences, FiniteSets, TLC, Json, IOUtils, TLCExt
VARIABLES tid, l, held, status, obs, atEnd, okBuilt
tvars == <<tid, l, held, status, obs, atEnd, okBuilt>>
TraceLog == JsonDeserialize(IOEnv.TRACE_FILE)
T == TraceLog[tid]
ToSet(q) == {q[i] : i \in DOMAIN q}
B == 1..16
TInit == /\ tid \in 1..Len(TraceLog) /\ l = 1 /\ held = [b \in B |-> {}] /\ status = [b \in B |-> "idle"]
         /\ obs = [reserved |-> <<>>, spent |-> <<>>] /\ atEnd = FALSE /\ okBuilt = TRUE
E == T.ev[l]
Step(e) == l <= Len(T.ev) /\ T.ev[l].event = e /\ l' = l + 1 /\ tid' = tid /\ obs' = E.obs
Holding == {b \in B : status[b] = "built"}
TrArrive == Step("Arrive") /\ status' = [status EXCEPT ![E.b] = "building"] /\ UNCHANGED <<held, atEnd, okBuilt>>
TrTick == Step("Tick") /\ UNCHANGED <<held, status, atEnd, okBuilt>>
\* a build returned a transaction: its inputs must be wallet outputs nobody else holds and nobody has spent
TrBuilt == /\ Step("Built")
           /\ LET S == ToSet(E.inputs) IN
                /\ held' = [held EXCEPT ![E.b] = S] /\ status' = [status EXCEPT ![E.b] = "built"]
                /\ okBuilt' = /\ S \subseteq 1..T.n
                              /\ \A a \in (Holding \cup {x \in B : status[x] = "spent"}) \ {E.b} : held[a] \cap S = {}
                              /\ S \cap ToSet(obs.spent) = {}
                              /\ Cardinality(S) = Len(E.inputs)
           /\ UNCHANGED atEnd
TrFailed == Step("Failed") /\ status' = [status EXCEPT ![E.b] = "failed"] /\ UNCHANGED <<held, atEnd, okBuilt>>
TrBroadcast == Step("Broadcast") /\ status' = [status EXCEPT ![E.b] = "spent"] /\ UNCHANGED <<held, atEnd, okBuilt>>
TrAbandon == Step("Abandon") /\ status' = [status EXCEPT ![E.b] = "released"] /\ held' = [held EXCEPT ![E.b] = {}]
             /\ UNCHANGED <<atEnd, okBuilt>>
TrEnd == Step("End") /\ atEnd' = TRUE /\ UNCHANGED <<held, status, okBuilt>>
TNext == TrArrive \/ TrTick \/ TrBuilt \/ TrFailed \/ TrBroadcast \/ TrAbandon \/ TrEnd
TSpec == TInit /\ [][TNext]_tvars

TNoShare == okBuilt /\ \A a, b \in Holding : a # b => held[a] \cap held[b] = {}
\* held by a finished, not yet broadcast/abandoned build => still marked reserved (unavailable to others)
THeldUnavailable == \A b \in Holding : held[b] \subseteq ToSet(obs.reserved)
TAllAvailableAtEnd == atEnd => (ToSet(obs.reserved) \ ToSet(obs.spent)) = {}

Reached == TLCSet(tid, IF TLCGetOrDefault(tid, 1) > l THEN TLCGetOrDefault(tid, 1) ELSE l)
Report == TLCGet("stats").diameter >= 0 /\ \A t \in 1..Len(TraceLog) :
            PrintT(<<"TRACE", t, IF TLCGetOrDefault(t, 1) - 1 = Len(TraceLog[t].ev) THEN "accepted" ELSE "rejected", TLCGetOrDefault(t, 1) - 1, Len(TraceLog[t].ev)>>)
=============================================================================
