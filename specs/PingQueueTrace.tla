-------------------------- MODULE PingQueueTrace --------------------------
(* G02 Leg C for the ping queue: executions of the REAL PingQueue (inside a real KademliaProtocol with a fake datagram
   transport, under the deterministic loop, virtual time) are judged event by event.

   The module is a lock-step predictor built from the operators of PingQueue.tla (EnqOp / FirstDue / RemoveAt: the
   dict discipline of _pending_contacts) and the rating rule of DhtPeer.tla (GoodIff): between two recorded events it
   runs the steps of the process task (one per period from start()), silently removes due contacts that are rated good,
   and demands that a step which has to ping shows up as a "ping" event (TNoneMissed); an observed ping must be sent
   by a running queue (TNothingAfterStop), at a step of the process task and only one per step (TOnePerStep), to a
   contact that is pending (TOncePerEnqueue) and due (TOnlyDue), the first due one in dict order (TFifo), not rated good
   (TGoodNotPinged), and at least the smallest delay asked for since that contact's previous ping after it (TWindow).
   At the end every contact that was skipped as good must be in the routing table (TSkippedJoinTable).

   TRACE_FILE: JSON array of [init |-> [contacts, period, check], ev |-> <<[k, t, c, d, rt], ...>>], times in 1/8 s.
     k = "start" | "stop" (after) | "enq" (c, d) | "ping" (c) | "replied" (c: a reply of c was reported to the PeerManager)
         | "fail" (c: a failure was reported) | "end" (rt: contacts in the routing table)
   Driver events never coincide with a step of the process task (they are made off the 1 s grid), except a stop with
   after = TRUE, which the driver places in the very instant of a step, between the step and the start of its ping task. *)
EXTENDS PingQueue, Json, IOUtils, TLCExt
VARIABLES tid, l, lrep, lfail, err
TraceLog == JsonDeserialize(IOEnv.TRACE_FILE)
T == TraceLog[tid]
E == T.ev[l]
P == T.init.period
CHECKW == T.init.check
ToSet(q) == {q[i] : i \in DOMAIN q}
Cs == ToSet(T.init.contacts)
tvars == <<vars, tid, l, lrep, lfail, err>>

Good(c, t) == lrep[c] # None /\ lrep[c] > t - CHECKW /\ (lfail[c] = None \/ lrep[c] > lfail[c])      \* DhtPeer!GoodIff
GridAtOrAfter(w, x) == IF x <= w THEN w ELSE w + P * ((x - w + P - 1) \div P)
MinDue(p) == IF p = <<>> THEN Inf ELSE CHOOSE m \in {p[i].due : i \in DOMAIN p} : \A i \in DOMAIN p : m <= p[i].due

\* the steps of the process task strictly before time t (nothing observable may happen in them)
RECURSIVE Sim(_, _, _, _, _)
Sim(p, w, t, sk, e) ==
  IF w = None \/ w >= t \/ e # "" THEN [pend |-> p, wake |-> w, sk |-> sk, err |-> e]
  ELSE LET i == FirstDue(p, w) IN
       IF i = 0 THEN Sim(p, GridAtOrAfter(w + P, MinOf(MinDue(p), t)), t, sk, e)
       ELSE IF Good(p[i].c, w) THEN Sim(RemoveAt(p, i), w + P, t, sk \cup {p[i].c}, e)
       ELSE [pend |-> p, wake |-> w, sk |-> sk, err |-> "ping-missed"]

R == Sim(pend, wake, E.t, inrt, err)
Keep == UNCHANGED <<spawned, inflight, runSince>>
Adv == l <= Len(T.ev) /\ l' = l + 1 /\ tid' = tid /\ now' = E.t /\ inrt' = R.sk

TInit == /\ tid \in 1..Len(TraceLog) /\ l = 1 /\ err = ""
         /\ now = 0 /\ running = FALSE /\ wake = None /\ pend = <<>> /\ spawned = {} /\ inflight = {} /\ inrt = {}
         /\ lastPing = [c \in ToSet(TraceLog[tid].init.contacts) |-> None]
         /\ minD = [c \in ToSet(TraceLog[tid].init.contacts) |-> Inf]
         /\ enqSince = [c \in ToSet(TraceLog[tid].init.contacts) |-> 0]
         /\ lrep = [c \in ToSet(TraceLog[tid].init.contacts) |-> None]
         /\ lfail = [c \in ToSet(TraceLog[tid].init.contacts) |-> None]
         /\ runSince = None /\ lastStepPing = None
         /\ obs = [gapOK |-> TRUE, onceOK |-> TRUE, stepOK |-> TRUE, stopOK |-> TRUE, postponed |-> FALSE, pinged |-> FALSE, skipped |-> FALSE]

TStart == /\ Adv /\ E.k = "start" /\ running' = TRUE /\ wake' = E.t /\ lastStepPing' = None
          /\ pend' = R.pend /\ err' = (IF R.err = "" /\ running THEN "start-while-running" ELSE R.err)
          /\ UNCHANGED <<lastPing, minD, enqSince, lrep, lfail, obs>> /\ Keep
TStop == /\ Adv /\ E.k = "stop" /\ running' = FALSE /\ wake' = None
         \* after = TRUE: stop() was called in the same instant as a step of the process task, right after it: the contact
         \* that step handed to maybe_ping has left the dict, its ping task is cancelled before it could send anything
         /\ LET i == IF E.after /\ R.wake = E.t /\ R.err = "" THEN FirstDue(R.pend, E.t) ELSE 0
            IN pend' = IF i = 0 THEN R.pend ELSE RemoveAt(R.pend, i)
         /\ err' = R.err
         /\ UNCHANGED <<lastPing, minD, enqSince, lrep, lfail, obs, lastStepPing>> /\ Keep
TEnq == /\ Adv /\ E.k = "enq" /\ pend' = EnqOp(R.pend, E.c, E.t + E.d, "code") /\ wake' = R.wake /\ err' = R.err
        /\ minD' = [minD EXCEPT ![E.c] = MinOf(@, E.d)] /\ enqSince' = [enqSince EXCEPT ![E.c] = MinOf(@ + 1, 2)]
        /\ UNCHANGED <<running, lastPing, lrep, lfail, obs, lastStepPing>> /\ Keep
TReplied == /\ Adv /\ E.k = "replied" /\ lrep' = [lrep EXCEPT ![E.c] = E.t] /\ pend' = R.pend /\ wake' = R.wake /\ err' = R.err
            /\ UNCHANGED <<running, lastPing, minD, enqSince, lfail, obs, lastStepPing>> /\ Keep
TFail == /\ Adv /\ E.k = "fail" /\ lfail' = [lfail EXCEPT ![E.c] = E.t] /\ pend' = R.pend /\ wake' = R.wake /\ err' = R.err
         /\ UNCHANGED <<running, lastPing, minD, enqSince, lrep, obs, lastStepPing>> /\ Keep
TPing ==
  /\ Adv /\ E.k = "ping"
  /\ LET c == E.c
         i == FirstDue(R.pend, E.t)
         j == IndexOf(R.pend, c)
         why == IF R.err # "" THEN R.err
                ELSE IF ~running THEN "ping-after-stop"
                ELSE IF R.wake # E.t THEN "ping-off-step"
                ELSE IF j = 0 THEN "ping-not-pending"
                ELSE IF R.pend[j].due > E.t THEN "ping-before-due"
                ELSE IF i # j THEN "ping-out-of-order"
                ELSE IF Good(c, E.t) THEN "ping-good-contact"
                ELSE ""
     IN /\ err' = why
        /\ pend' = (IF j = 0 THEN R.pend ELSE RemoveAt(R.pend, j))
        /\ wake' = (IF R.wake = E.t THEN E.t + P ELSE R.wake)
        /\ obs' = [obs EXCEPT !.gapOK = @ /\ (lastPing[c] = None \/ E.t - lastPing[c] >= minD[c]), !.pinged = TRUE]
        /\ lastPing' = [lastPing EXCEPT ![c] = E.t] /\ minD' = [minD EXCEPT ![c] = Inf] /\ enqSince' = [enqSince EXCEPT ![c] = 0]
        /\ lastStepPing' = E.t
  /\ UNCHANGED <<running, lrep, lfail>> /\ Keep
TEnd == /\ Adv /\ E.k = "end" /\ pend' = R.pend /\ wake' = R.wake
        /\ err' = (IF R.err = "" /\ ~(R.sk \subseteq ToSet(E.rt)) THEN "skipped-not-in-table" ELSE R.err)
        /\ UNCHANGED <<running, lastPing, minD, enqSince, lrep, lfail, obs, lastStepPing>> /\ Keep
TNext == TStart \/ TStop \/ TEnq \/ TReplied \/ TFail \/ TPing \/ TEnd
TSpec == TInit /\ [][TNext]_tvars

TNothingAfterStop == err # "ping-after-stop"
TOnePerStep == err # "ping-off-step"
TOncePerEnqueue == err # "ping-not-pending"
TOnlyDue == err # "ping-before-due"
TFifo == err # "ping-out-of-order"
TGoodNotPinged == err # "ping-good-contact"
TNoneMissed == err # "ping-missed"
TSkippedJoinTable == err # "skipped-not-in-table"
TWindow == obs.gapOK
TSane == err # "start-while-running"

Reached == TLCSet(tid, IF TLCGetOrDefault(tid, 1) > l THEN TLCGetOrDefault(tid, 1) ELSE l)
Report == TLCGet("stats").diameter >= 0 /\ \A t \in 1..Len(TraceLog) :
            PrintT(<<"TRACE", t, IF TLCGetOrDefault(t, 1) - 1 = Len(TraceLog[t].ev) THEN "accepted" ELSE "rejected", TLCGetOrDefault(t, 1) - 1, Len(TraceLog[t].ev)>>)
=============================================================================
