------------------------------ MODULE DhtToken ------------------------------
(* G02, part 2 -- the store gate of a DHT node and the announcing client's use of it.
   lbry/dht/protocol/protocol.py: KademliaRPC.store / find_value (token issue) / make_token / verify_token /
   refresh_token, KademliaProtocol.handle_request_datagram (what a served request does to the routing table and the
   ping queue), RemoteKademliaRPC.store + KademliaProtocol.store_to_peer (token cache of PeerManager, one retry on
   "Invalid token").

   A token is symbolic: <<secret epoch, requester ip>> (sha384(secret + compact_ip) in the code: unforgeable, so an
   attacker can present only tokens the node ISSUED -- to anybody, in any epoch --, garbage, or mutations of issued
   tokens).  `cur` / `old` are token_secret / old_token_secret (None = -1); Rotate is refresh_token().  Time in ticks:
   ROT = TOKEN_SECRET_REFRESH_INTERVAL, CWIN = the age up to which PeerManager.get_node_token hands out a cached token.

   The gate as the code has it (every switch TRUE / "both" = as found):
     OLDNONE    verify_token reads  `if old and token != H(cur,ip): (if token != H(old,ip): return False); return True`
                -- while old_token_secret is None (it is until the first refresh_token()) EVERY token verifies.
                Nothing in lbry calls refresh_token()/change_token() (node.py schedules no rotation), so in a running
                node this is permanent.                         [finding store-accepts-any-token-before-first-rotation]
     GRACE      store() ignores a failed verification while loop.time() - started_listening_time < ROT (deliberate:
                tokens of the previous run are honoured just after a restart; started_listening_time is never set,
                so the window is the first ROT ticks of the loop's clock: START = T0 = 1, tick k is second 100 (k - 1) + 1).
     PORTFIRST  store() calls rpc_contact.update_tcp_port(port) BEFORE the token is verified; the contact object is the
                one held by the data store / routing table, so a refused store still changes the tcp port under which
                that contact's earlier announcements are served.               [finding refused-store-updates-tcp-port]
     ERRFAIL    every error reply is counted as a failure of the requester (_send(ErrorDatagram) -> report_failure):
                deliberate; the liveness rating (DhtPeer.tla) of the sender worsens: good -> bad, unknown -> unknown(1
                failure) -> bad, and DictDataStore.get_peers_for_blob hides contacts rated bad (Visible).
   The statement's clauses are the invariants TokenClause / ValidAccepted / RefusedChangesNothing...; under the switches
   as found the first and the last are VIOLATED in the model exactly the way the real node violates them (Leg B compares
   every step), and they hold with OLDNONE = GRACE = PORTFIRST = ERRFAIL = FALSE.  GateAsFound is the clause the code does
   satisfy: outside the grace window and after the first rotation, accepted => valid token.

   KademliaProtocol carries a second copy of the scheme (token_secret / old_token_secret / change_token / make_token /
   verify_token) that no code path uses; its old secret starts as a random id, so it follows the repaired rule from the
   start (the driver checks every presented token against it as well).

   The rating part is abstract here (valid while everything happens inside one refresh window): st[ip] in
   good / u0 (unknown, no failure) / u1 (unknown, one failure) / bad.  A served request from a good contact adds it to
   the routing table, from an unknown one enqueues a ping, from a bad one does nothing; a refused one does neither.

   ATTACK = TRUE: requests with arbitrary presentable tokens from every ip (Issue / Store).
   Client (CLIENT = TRUE): C's store_to_peer, one action per datagram: CBegin (cache fresh? store : findValue),
   DeliverFV (token issued and cached), DeliverST (OK | Invalid token -> clear cache, one retry), Lose (rpc timeout ->
   failure without retry).  No tick passes inside a call except by Lose (round trips are << a tick).
   Negative controls: VERIFY = "current" (a token issued just before a rotation is refused), VERIFY = "noip",
   VERIFY = "none", CWIN = 2*ROT (client keeps tokens longer than the node honours them), MINPERIOD = 0 for the client
   clause (two rotations inside one call). *)
EXTENDS Integers, Sequences, FiniteSets, TLC, TLCExt, Json

CONSTANTS IPS, ROT, CWIN, MAXROT, T0, MAXT, MAXISSUE, MAXLEN, PORTS, G0S, RT0, START, MINPERIOD,
          OLDNONE, GRACE, PORTFIRST, ERRFAIL, VERIFY, CLIENT, ATTACK, EMIT

None == -1
NoTok == <<-9, "none">>
Garbage == <<-1, "garbage">>
Mut(t) == <<-10 - t[1], t[2]>>           \* an issued token with a flipped bit: equal to no token the node can make
CPORT == CHOOSE p \in PORTS : \A q \in PORTS : p <= q      \* the client's tcp port

VARIABLES now, cur, old, lastRot,       \* the node's clock and secrets
          issued,                       \* tokens handed out so far (all of them are known to the attacker)
          stored, tcp,                  \* data store: who announced the blob; tcp port of each contact object
          st, rt, pingq, g0,            \* rating per requester, routing table, ping queue, who was good initially
          cph, cretry, ctok, cts, csent, cres, cfrom,    \* the client's store_to_peer
          last,                         \* the store request handled by the step just taken ([kind |-> "none"] after any other step)
          hist                          \* the schedule so far with what is observable after each step (EMIT only)
vars == <<now, cur, old, lastRot, issued, stored, tcp, st, rt, pingq, g0, cph, cretry, ctok, cts, csent, cres, cfrom, last, hist>>
server == <<issued, stored, tcp, st, rt, pingq>>
client == <<cph, cretry, ctok, cts, csent, cres, cfrom>>

T(x) == x # None /\ x # 0

\* ---------------------------------------------------------------- the gate
Valid(tok, ip) == tok \in issued /\ tok[2] = ip /\ (tok[1] = cur \/ (old # None /\ tok[1] = old))
Verify(tok, ip) ==
  CASE VERIFY = "both" -> IF OLDNONE THEN ~(old # None /\ tok # <<cur, ip>> /\ tok # <<old, ip>>)
                                     ELSE tok = <<cur, ip>> \/ (old # None /\ tok = <<old, ip>>)
    [] VERIFY = "current" -> tok = <<cur, ip>>
    [] VERIFY = "noip" -> tok[1] >= 0 /\ (tok[1] = cur \/ tok[1] = old)
    [] VERIFY = "none" -> TRUE
InGrace == GRACE /\ now - START < ROT
Class(tok, ip) == IF tok = Garbage THEN "garbage" ELSE IF tok[1] < 0 THEN "mutated"
                  ELSE IF tok[2] # ip THEN "other-ip"
                  ELSE IF tok[1] = cur THEN "own-current" ELSE IF tok[1] = old THEN "own-previous" ELSE "own-older"
Worse(s) == IF ~ERRFAIL THEN s ELSE IF s = "good" THEN "bad" ELSE IF s = "u0" THEN "u1" ELSE "bad"
Visible(S, r) == {i \in S : r[i] # "bad"}

\* what handle_request_datagram does after a request from ip was SERVED (rating r as after the request)
Served(ip) == /\ rt' = IF st[ip] = "good" THEN rt \cup {ip} ELSE rt
              /\ pingq' = IF st[ip] \in {"u0", "u1"} THEN pingq \cup {ip} ELSE pingq

ServerIssue(ip) == /\ issued' = issued \cup {<<cur, ip>>}
                   /\ Served(ip) /\ UNCHANGED <<stored, tcp, st>>
ServerStore(ip, tok, port, who) ==
  LET ver == Verify(tok, ip)
      acc == ver \/ InGrace
      why == IF Valid(tok, ip) THEN "token" ELSE IF ver THEN (IF VERIFY = "both" THEN "noold" ELSE "weak") ELSE IF acc THEN "grace" ELSE "refused"
  IN /\ tcp' = IF acc \/ PORTFIRST THEN [tcp EXCEPT ![ip] = port] ELSE tcp
     /\ stored' = IF acc THEN stored \cup {ip} ELSE stored
     /\ st' = IF acc THEN st ELSE [st EXCEPT ![ip] = Worse(@)]
     /\ IF acc THEN Served(ip) ELSE UNCHANGED <<rt, pingq>>
     /\ UNCHANGED issued
     /\ last' = [kind |-> "store", who |-> who, ip |-> ip, tok |-> tok, port |-> port, acc |-> acc, why |-> why,
                 valid |-> Valid(tok, ip), class |-> Class(tok, ip), rotated |-> old # None, grace |-> InGrace,
                 pstored |-> stored, ptcp |-> tcp, prt |-> rt, ppq |-> pingq, pvis |-> Visible(stored, st)]

FreshAt(tok, ts, t) == tok # NoTok /\ T(ts) /\ ts > t - CWIN                   \* PeerManager.get_node_token
CacheFresh == FreshAt(ctok, cts, now)
Obs == [stored |-> stored', tcp |-> tcp', rt |-> rt', pq |-> pingq', vis |-> Visible(stored', st'),
        cph |-> cph', cres |-> cres', cached |-> FreshAt(ctok', cts', now')]
Log(e, acc) == hist' = IF EMIT THEN Append(hist, [e |-> e, acc |-> acc, o |-> Obs]) ELSE hist
NoStore == last' = [kind |-> "none"]
More == ~EMIT \/ Len(hist) < MAXLEN

\* ---------------------------------------------------------------- environment
Tick == /\ More /\ now < MAXT /\ cph = "idle" /\ now' = now + 1
        /\ NoStore /\ UNCHANGED <<cur, old, lastRot, server, client, g0>> /\ Log(<<"tick">>, "-")
Rotate == /\ More /\ cur < MAXROT /\ (lastRot = None \/ now - lastRot >= MINPERIOD)
          /\ old' = cur /\ cur' = cur + 1 /\ lastRot' = (IF MINPERIOD = 0 THEN None ELSE now)      \* refresh_token()
          /\ NoStore /\ UNCHANGED <<now, server, client, g0>> /\ Log(<<"rotate">>, "-")
Issue(ip) == /\ More /\ ATTACK /\ (ip = "C" => ~CLIENT) /\ Cardinality(issued \cup {<<cur, ip>>}) <= MAXISSUE
             /\ ServerIssue(ip)
             /\ NoStore /\ UNCHANGED <<now, cur, old, lastRot, client, g0>> /\ Log(<<"issue", ip>>, "-")
Presentable == issued \cup {Garbage} \cup {Mut(t) : t \in issued}
Store(ip, tok, port) == /\ More /\ ATTACK /\ ServerStore(ip, tok, port, "attacker")
                        /\ UNCHANGED <<now, cur, old, lastRot, client, g0>>
                        /\ Log(<<"store", ip, tok, port>>, IF last'.acc THEN "accepted" ELSE "refused")

\* ---------------------------------------------------------------- the client's store_to_peer
CBegin == /\ More /\ CLIENT /\ cph = "idle" /\ cretry' = TRUE /\ cres' = "none"
          /\ IF CacheFresh THEN cph' = "st" /\ csent' = ctok /\ cfrom' = "cache"
                           ELSE cph' = "fv" /\ csent' = NoTok /\ cfrom' = "fresh"
          /\ NoStore /\ UNCHANGED <<now, cur, old, lastRot, server, ctok, cts, g0>> /\ Log(<<"cbegin">>, "-")
DeliverFV == /\ More /\ CLIENT /\ cph = "fv" /\ Cardinality(issued \cup {<<cur, "C">>}) <= MAXISSUE + 2
             /\ ServerIssue("C")
             /\ ctok' = <<cur, "C">> /\ cts' = now                               \* update_token
             /\ cph' = "st" /\ csent' = <<cur, "C">> /\ cfrom' = "fresh"
             /\ NoStore /\ UNCHANGED <<now, cur, old, lastRot, cretry, cres, g0>> /\ Log(<<"deliver">>, "-")
DeliverST == /\ More /\ CLIENT /\ cph = "st"
             /\ ServerStore("C", csent, CPORT, IF ~cretry THEN "client-retry" ELSE IF cfrom = "cache" THEN "client-cache" ELSE "client-fresh")
             /\ IF last'.acc THEN cres' = "ok" /\ cph' = "idle" /\ UNCHANGED <<ctok, cts, cretry>>
                ELSE /\ ctok' = NoTok /\ cts' = None                              \* clear_token
                     /\ IF cretry THEN cretry' = FALSE /\ cph' = "fv" /\ cres' = cres
                                  ELSE cres' = "refused" /\ cph' = "idle" /\ cretry' = cretry
             /\ UNCHANGED <<now, cur, old, lastRot, csent, cfrom, g0>>
             /\ Log(<<"deliver">>, IF last'.acc THEN "accepted" ELSE "refused")
Lose == /\ More /\ CLIENT /\ cph \in {"fv", "st"} /\ now < MAXT
        /\ now' = now + 1 /\ cres' = "lost" /\ cph' = "idle"                     \* asyncio.TimeoutError: no retry, cache kept
        /\ NoStore
        /\ UNCHANGED <<cur, old, lastRot, server, cretry, ctok, cts, csent, cfrom, g0>> /\ Log(<<"lose">>, "-")

Init == /\ now = T0 /\ cur = 0 /\ old = None /\ lastRot = None /\ issued = {}
        /\ stored = {} /\ tcp = [i \in IPS |-> 0] /\ pingq = {}
        /\ g0 \in G0S /\ st = [i \in IPS |-> IF i \in g0 THEN "good" ELSE "u0"] /\ rt = g0 \cap RT0
        /\ cph = "idle" /\ cretry = TRUE /\ ctok = NoTok /\ cts = None /\ csent = NoTok /\ cres = "none" /\ cfrom = "fresh"
        /\ last = [kind |-> "none"] /\ hist = <<>>
Next == \/ Tick \/ Rotate \/ CBegin \/ DeliverFV \/ DeliverST \/ Lose
        \/ \E ip \in IPS : Issue(ip)
        \/ \E ip \in IPS, tok \in Presentable, port \in PORTS : Store(ip, tok, port)
Spec == Init /\ [][Next]_vars

\* ---------------------------------------------------------------- clauses
S == last.kind = "store"       \* the state right after a store request was handled
\* the statement: accepted only with a token issued to that ip under the current or previous secret
TokenClause == (S /\ last.acc) => last.valid
\* what the code guarantees instead: once a rotation has happened and outside the start-up window
GateAsFound == (S /\ last.acc /\ last.rotated /\ ~last.grace) => last.valid
Accounted == (S /\ last.acc) => last.why \in {"token", "noold", "grace"}
\* "current or previous": a valid token is never refused
ValidAccepted == (S /\ last.valid) => last.acc
OtherIpRefused == (S /\ last.class = "other-ip" /\ last.rotated /\ ~last.grace) => ~last.acc
OlderRefused == (S /\ last.class = "own-older" /\ ~last.grace) => ~last.acc
MutatedRefused == (S /\ last.class \in {"garbage", "mutated"} /\ last.rotated /\ ~last.grace) => ~last.acc
\* the statement: a refused store changes neither the data store nor the routing table
RefusedChangesNothing == (S /\ ~last.acc) => /\ stored = last.pstored /\ tcp = last.ptcp /\ rt = last.prt /\ pingq = last.ppq
                                              /\ Visible(stored, st) = last.pvis
\* ... what the code guarantees: no entry added or removed, routing table and ping queue untouched
RefusedKeepsMembership == (S /\ ~last.acc) => (stored = last.pstored /\ rt = last.prt /\ pingq = last.ppq)
AcceptedIsStored == (S /\ last.acc) => (last.ip \in stored /\ tcp[last.ip] = last.port)
OnlyGoodJoinTable == \A i \in rt : i \in g0
StoredOnlyAccepted == \A i \in stored : tcp[i] # 0
\* the client
NeverRefusedTwice == cres # "refused"
ClientNeverFailsOnTokens == (CLIENT /\ MINPERIOD > 0) => NeverRefusedTwice
\* a node that rotates no faster than every ROT ticks honours every token the client still considers fresh (CWIN <= ROT)
CachedTokenHonoured == (CLIENT /\ MINPERIOD >= ROT /\ S /\ last.who = "client-cache") => last.acc
RetryIsFresh == (S /\ last.who = "client-retry" /\ MINPERIOD > 0) => last.valid
TypeOK == /\ cur \in 0..MAXROT /\ old \in {None} \cup (0..MAXROT) /\ now \in T0..MAXT
          /\ stored \subseteq IPS /\ rt \subseteq IPS /\ pingq \subseteq IPS
          /\ cph \in {"idle", "fv", "st"} /\ cres \in {"none", "ok", "refused", "lost"}

\* ---------------------------------------------------------------- witnesses (each must be VIOLATED)
WAcceptedValidCur == ~(S /\ last.acc /\ last.class = "own-current" /\ last.rotated /\ ~last.grace)
WAcceptedValidOld == ~(S /\ last.acc /\ last.class = "own-previous" /\ last.valid /\ ~last.grace)
WRefusedOther == ~(S /\ ~last.acc /\ last.class = "other-ip")
WRefusedOlder == ~(S /\ ~last.acc /\ last.class = "own-older")
WRefusedGarbage == ~(S /\ ~last.acc /\ last.class = "garbage")
WRefusedMutated == ~(S /\ ~last.acc /\ last.class = "mutated")
WNoOld == ~(S /\ last.why = "noold" /\ ~last.grace)
WGrace == ~(S /\ last.why = "grace")
WRefusedTouchesPort == ~(S /\ ~last.acc /\ last.ip \in stored /\ tcp # last.ptcp)
WRefusedHides == ~(S /\ ~last.acc /\ Visible(stored, st) # last.pvis)
WJoined == ~(rt # g0 \cap RT0)
WPinged == ~(pingq # {})
WClientOkCache == ~(cres = "ok" /\ cfrom = "cache")
WClientRetryOk == ~(cres = "ok" /\ ~cretry)
WClientRetryFails == ~(cres = "refused")
WClientCacheRefused == ~(S /\ last.who = "client-cache" /\ ~last.acc)
WClientLost == ~(cres = "lost")

\* ---------------------------------------------------------------- Leg B emission (simulation or BFS)
Case == [g0 |-> g0, rt0 |-> g0 \cap RT0, ev |-> hist]
Emit == (EMIT /\ Len(hist) = MAXLEN) => PrintT(<<"CASE", ToJson(Case)>>)
\* one run marks every witness it reaches (workers = 1): CONSTRAINT MarkWitnesses, POSTCONDITION ReportWitnesses
WitnessNames == <<"WAcceptedValidCur", "WAcceptedValidOld", "WRefusedOther", "WRefusedOlder", "WRefusedGarbage", "WRefusedMutated", "WNoOld", "WGrace", "WRefusedTouchesPort", "WRefusedHides", "WJoined", "WPinged", "WClientOkCache", "WClientRetryOk", "WClientRetryFails", "WClientCacheRefused", "WClientLost">>
MarkWitnesses ==
                 /\ (~WAcceptedValidCur => TLCSet(101, TRUE))
                 /\ (~WAcceptedValidOld => TLCSet(102, TRUE))
                 /\ (~WRefusedOther => TLCSet(103, TRUE))
                 /\ (~WRefusedOlder => TLCSet(104, TRUE))
                 /\ (~WRefusedGarbage => TLCSet(105, TRUE))
                 /\ (~WRefusedMutated => TLCSet(106, TRUE))
                 /\ (~WNoOld => TLCSet(107, TRUE))
                 /\ (~WGrace => TLCSet(108, TRUE))
                 /\ (~WRefusedTouchesPort => TLCSet(109, TRUE))
                 /\ (~WRefusedHides => TLCSet(110, TRUE))
                 /\ (~WJoined => TLCSet(111, TRUE))
                 /\ (~WPinged => TLCSet(112, TRUE))
                 /\ (~WClientOkCache => TLCSet(113, TRUE))
                 /\ (~WClientRetryOk => TLCSet(114, TRUE))
                 /\ (~WClientRetryFails => TLCSet(115, TRUE))
                 /\ (~WClientCacheRefused => TLCSet(116, TRUE))
                 /\ (~WClientLost => TLCSet(117, TRUE))
ReportWitnesses == TLCGet("stats").diameter >= 0 /\ \A i \in DOMAIN WitnessNames : PrintT(<<"WITNESS", WitnessNames[i], TLCGetOrDefault(100 + i, FALSE)>>)

=============================================================================
