----------------------------- MODULE DhtLookup -----------------------------
(* C12 -- one iterative lookup (lbry/dht/protocol/iterative_find.py: IterativeFinder, IterativeNodeFinder,
   IterativeValueFinder) against an ARBITRARY network.

   Remote nodes are 1..R; node i lies at XOR distance i from the key (1 = closest), so `active` sorted by distance is
   the set in increasing order.  0 is the searching node itself.
   Every probe is answered by the environment with ONE of
     contacts      a contact list: any set of at most MAXC remote nodes (an honest node's K closest, or a hostile
                   list naming the searcher, the peer itself, far nodes; entries with reserved IPs, wrong-length ids,
                   bad ports or duplicates are dropped by make_kademlia_peer / the dict and so are simply absent here),
                   plus for node lookups the flag `found` (the key itself is among the triples)
     value page    (value lookups) contacts as above and a page: none | short | full, all addresses fresh or some
                   duplicate, all well-formed or some bad compact address, "more pages" claimed or not (page count
                   inflated at will) -- reduced to the three outcomes send_probe distinguishes, see ReplyValue
     valueerror    a reply whose structure raises ValueError while it is unpacked (wrong arity, undecodable address text,
                   page count that is no number): _send_probe catches it and calls _reset_closest
     escape        a reply on which another exception escapes the probe task (payload of the wrong type, missing token,
                   unhashable id): the task dies, its done-callback still runs
     error         an error datagram / a response naming our own node id: RemoteException -> _reset_closest
     silence       nothing (dead node, lost or undecodable datagram, wrong rpc id): TimeoutError after rpc_timeout
   so every subset of the remote nodes being dead or hostile, at every probe, is a behaviour of this model.
   Time is a virtual clock in ticks; a probe started at t ends at the latest at t + T.

   Actions are the code's: StartRun (__aiter__ schedules _search_round), Complete (a probe task finishes: _send_probe ->
   _handle_probe_result -> _add_active / _reset_closest / check_result_ready, then the done-callback pops running_probes
   and calls _search_round, which may call search_exhausted), Close (the consumer reads the end marker: _aclose cancels
   the probes), Tick.  Simplification: the end of a probe task and its done-callback are ONE step here; in the code the
   callbacks of two probes finishing in the same loop iteration run after both tasks (the sets reached are the same, the
   order in which the next probes are scheduled may differ).  peer_is_good() is modelled by `good`: "none" | "fail1" (one failure, never replied: None) |
   "good" (True) | "bad" (False).

   CONSTANT switches: PAGECAP = 0 is the code as found (a peer is asked for the next page whenever it sends a full fresh
   page and claims more), PAGECAP = n > 0 follows at most n further pages per peer (the repair).  MARK, FILTER and
   CLEARBAD = TRUE are the code; FALSE are negative controls (mutants) that must violate the properties. *)
EXTENDS Naturals, Sequences, FiniteSets, TLC

CONSTANTS R, ALPHA, K, T, MODE, MAXC, PAGECAP, MAXPAGE, PAGELIMIT, MARK, FILTER, CLEARBAD
VARIABLES phase,        \* "new" | "running" | "finished" (end marker queued) | "closed"
          active, contacted, inflight, deadline, page, good,
          replied,      \* ghost: nodes whose response datagram was received
          yielded,      \* node lookups: contacts put into the result queue
          ybad,         \* value lookups: a malformed address was put into the result queue
          clock, nprobes, probed, reprobed
vars == <<phase, active, contacted, inflight, deadline, page, good, replied, yielded, ybad, clock, nprobes, probed, reprobed>>
Nodes == 1..R

Init == /\ phase = "new"
        /\ active \in SUBSET Nodes            \* the shortlist (routing-table contacts closest to the key; force-added)
        /\ contacted = {} /\ inflight = {} /\ deadline = [p \in Nodes |-> 0] /\ page = [p \in Nodes |-> 0]
        /\ good = [p \in Nodes |-> "none"] /\ replied = {} /\ yielded = {} /\ ybad = FALSE
        /\ clock = 0 /\ nprobes = 0 /\ probed = {} /\ reprobed = FALSE

\* ---- _add_active(peer) (force = FALSE)
AddActive(a, c, g, p) == IF p = 0 THEN a ELSE IF g[p] = "bad" \/ p \in c THEN a ELSE a \cup {p}
\* ---- _search_round: walk `active` in distance order
RECURSIVE Round(_, _, _, _, _)
Round(todo, idx, c, infl, added) ==       \* todo: active nodes not yet visited, as a set; the closest is visited first
  IF todo = {} THEN [c |-> c, infl |-> infl, added |-> added]
  ELSE LET p == CHOOSE x \in todo : \A y \in todo : x <= y IN
       IF p \in c THEN Round(todo \ {p}, idx + 1, c, infl, added)
       ELSE IF Cardinality(infl) >= ALPHA \/ idx > K + Cardinality(infl) THEN [c |-> c, infl |-> infl, added |-> added]
       ELSE Round(todo \ {p}, idx + 1, IF MARK THEN c \cup {p} ELSE c, infl \cup {p}, added \cup {p})

\* put_result(active): only peers who answered, never ourselves
Results(a, g) == {p \in a : p # 0 /\ (FILTER => g[p] = "good")}

\* the done-callback of a probe task: _search_round with the state (a, c, infl, g) the completed probe left behind;
\* `fin` = check_result_ready already queued the end marker
AfterProbe(a, c, infl, g, pg, fin) ==
  \E r \in {Round(a, 0, c, infl, {})} :          \* (bound through a singleton set so that TLC evaluates it once)
   LET exhausted == r.added = {} /\ r.infl = {} IN
     /\ active' = a /\ contacted' = r.c /\ inflight' = r.infl /\ good' = g /\ page' = pg
     /\ deadline' = [p \in Nodes |-> IF p \in r.added THEN clock + T ELSE IF p \in r.infl THEN deadline[p] ELSE 0]
     /\ nprobes' = nprobes + Cardinality(r.added)
     /\ probed' = probed \cup {<<p, pg[p]>> : p \in r.added}
     /\ reprobed' = (reprobed \/ \E p \in r.added : <<p, pg[p]>> \in probed)
     /\ phase' = IF fin \/ exhausted THEN "finished" ELSE phase
     /\ yielded' = IF MODE = "node" /\ (fin \/ exhausted) THEN yielded \cup Results(a, g) ELSE yielded

StartRun == /\ phase = "new"
            /\ LET r == Round(active, 0, contacted, inflight, {}) IN
                 /\ contacted' = r.c /\ inflight' = r.infl
                 /\ deadline' = [p \in Nodes |-> IF p \in r.added THEN clock + T ELSE deadline[p]]
                 /\ nprobes' = Cardinality(r.added) /\ probed' = {<<p, 0>> : p \in r.added}
                 /\ phase' = IF r.added = {} THEN "finished" ELSE "running"
                 /\ yielded' = IF MODE = "node" /\ r.added = {} THEN Results(active, good) ELSE yielded
            /\ UNCHANGED <<active, page, good, replied, ybad, clock, reprobed>>

\* Contact lists.  Only the entries that _add_active would accept change the state (a node already active, already
\* contacted or known bad is ignored, and so is the searcher's own triple: _add_active refuses its id, _search_round
\* skips it and put_result filters it), so the environment's choice is quotiented to subsets of the EFFECTIVE entries.
Eff(a, c, g, p) == {q \in Nodes : q # p /\ q \notin a /\ q \notin c /\ g[q] # "bad"}
Lists(E) == {S \in SUBSET E : Cardinality(S) <= MAXC}
Replied(g, p) == [g EXCEPT ![p] = "good"]
Failed(g, p) == [g EXCEPT ![p] = IF g[p] = "none" THEN "fail1" ELSE "bad"]

\* a reply with a contact list (node lookup); found: the key itself is among the triples
ReplyContacts(p, found) ==
  /\ MODE = "node" /\ p \in inflight /\ phase \in {"running", "finished"}
  /\ \E g \in {Replied(good, p)} : \E S \in Lists(Eff(active, contacted, g, p)) :
       \E a \in {AddActive(active, contacted, g, p) \cup S} :
        AfterProbe(a, contacted, inflight \ {p}, g, page, found)
  /\ replied' = replied \cup {p} /\ UNCHANGED <<ybad, clock>>

\* a reply to findValue: a contact list and a page.  What send_probe does with the page has three outcomes:
\*   "plain"   no page / a short page / duplicates among the addresses / a full page without a claim of more pages /
\*             a full fresh page with the claim when the page cap is reached: the addresses (if any) are yielded
\*   "bad"     some compact address is malformed: report_failure(peer), the page is dropped (CLEARBAD)
\*   "follow"  a full page of fresh well-formed addresses and peer_pages[peer] < claimed page count: peer_pages += 1 and
\*             the peer leaves `contacted`, so that the next round probes it again (the environment may do this at
\*             every page up to MAXPAGE: the inflated page count)
ReplyValue(p, outcome) ==
  /\ MODE = "value" /\ p \in inflight /\ phase \in {"running", "finished"}
  /\ outcome = "follow" => (page[p] < MAXPAGE /\ (PAGECAP = 0 \/ page[p] < PAGECAP))
  /\ LET g == IF outcome = "bad" THEN [good EXCEPT ![p] = "bad"] ELSE Replied(good, p)     \* failure at the instant of the reply
         pg == IF outcome = "follow" THEN [page EXCEPT ![p] = @ + 1] ELSE page
         c == IF outcome = "follow" THEN contacted \ {p} ELSE contacted
     IN /\ \E S \in Lists(Eff(active, c, g, p)) : \E a \in {AddActive(active, c, g, p) \cup S} :
              AfterProbe(a, c, inflight \ {p}, g, pg, FALSE)
        /\ ybad' = (ybad \/ (outcome = "bad" /\ ~CLEARBAD))
  /\ replied' = replied \cup {p} /\ UNCHANGED clock

\* the reply raises ValueError while unpacked: _reset_closest(peer)
ReplyValueError(p) ==
  /\ p \in inflight /\ phase \in {"running", "finished"}
  /\ AfterProbe(active \ {p}, contacted, inflight \ {p}, Replied(good, p), page, FALSE)
  /\ replied' = replied \cup {p} /\ UNCHANGED <<ybad, clock>>
\* another exception escapes the probe task: nothing is touched, the callback runs
ReplyEscape(p) ==
  /\ p \in inflight /\ phase \in {"running", "finished"}
  /\ AfterProbe(active, contacted, inflight \ {p}, Replied(good, p), page, FALSE)
  /\ replied' = replied \cup {p} /\ UNCHANGED <<ybad, clock>>
\* error datagram / response carrying our own id: RemoteException; silence: TimeoutError at the deadline
ReplyError(p) ==
  /\ p \in inflight /\ phase \in {"running", "finished"}
  /\ AfterProbe(active \ {p}, contacted, inflight \ {p}, Failed(good, p), page, FALSE)
  /\ UNCHANGED <<replied, ybad, clock>>
Timeout(p) ==
  /\ p \in inflight /\ phase \in {"running", "finished"} /\ deadline[p] = clock
  /\ AfterProbe(active \ {p}, contacted, inflight \ {p}, Failed(good, p), page, FALSE)
  /\ UNCHANGED <<replied, ybad, clock>>

\* the consumer reads the end marker: _aclose() cancels what is still running
Close == /\ phase = "finished" /\ phase' = "closed" /\ inflight' = {} /\ deadline' = [p \in Nodes |-> 0]
         /\ UNCHANGED <<active, contacted, page, good, replied, yielded, ybad, clock, nprobes, probed, reprobed>>
Done == phase = "closed" /\ UNCHANGED vars
\* time passes only while the lookup runs and no probe is overdue
Tick == /\ phase = "running" /\ \A p \in inflight : deadline[p] > clock
        /\ clock' = clock + 1
        /\ UNCHANGED <<phase, active, contacted, inflight, deadline, page, good, replied, yielded, ybad, nprobes, probed, reprobed>>

Complete == \E p \in Nodes :
              \/ \E f \in BOOLEAN : ReplyContacts(p, f)
              \/ \E o \in {"plain", "bad", "follow"} : ReplyValue(p, o)
              \/ ReplyValueError(p) \/ ReplyEscape(p) \/ ReplyError(p) \/ Timeout(p)
Next == StartRun \/ Complete \/ Close \/ Tick \/ Done
Spec == Init /\ [][Next]_vars

\* ------------------------------------------------------------------------------------------------ properties
TypeOK == /\ phase \in {"new", "running", "finished", "closed"} /\ active \subseteq Nodes /\ contacted \subseteq Nodes
          /\ inflight \subseteq Nodes /\ yielded \subseteq 0..R
\* (i) while the lookup runs at least one probe is in flight (a round that adds nothing with nothing in flight ends it)
Progress == phase = "running" => inflight # {}
\* never more than ALPHA probes from a search round
Parallelism == Cardinality(inflight) <= ALPHA
\* (ii) no probe outlives rpc_timeout
ProbeDeadline == \A p \in inflight : clock <= deadline[p] /\ deadline[p] <= clock + T
\* (iii) a (peer, page) is asked at most once
ProbeOncePerPage == ~reprobed
\* hence: elapsed virtual time <= probes * rpc_timeout, and for node lookups probes <= contacted <= R
TimeBound == clock <= nprobes * T
NodeBound == MODE = "node" => (nprobes = Cardinality(contacted) /\ clock <= Cardinality(contacted) * T)
\* value lookups: the pages followed per peer are bounded (PAGELIMIT) -- FALSE for the code as found
BoundedPages == \A p \in Nodes : page[p] <= PAGELIMIT
ValueBound == MODE = "value" => nprobes <= R * (PAGELIMIT + 1)
NodeResultsRepliedOnly == MODE = "node" => yielded \subseteq replied
NeverSelf == 0 \notin yielded
ValueResultsWellFormed == ~ybad
\* the lookup cannot get stuck: checked as deadlock freedom (Done is the only action of a closed lookup)

\* reachability witnesses (each must be violated)
W_Closed == phase # "closed"
W_Yield == yielded = {}
W_TimeoutPath == ~(phase = "closed" /\ clock = T /\ nprobes = 1)
W_Paged == \A p \in Nodes : page[p] = 0
W_FullTime == ~(phase = "closed" /\ nprobes >= 2 /\ clock = nprobes * T)
=============================================================================
