------------------------------ MODULE Storage ------------------------------
(* G05 -- SQLiteStorage (lbry/extras/daemon/storage.py): the tables of lbrynet.sqlite as sets of records and
   one transformer per public call, transcribed statement by statement from the SQL the call executes.

   Tables (one record per row, NULL = "NULL" for text columns, NONE = -1 for integer columns):
     blob    [h, len, nat, sa, st, lat, single, added, mine]      primary key h
     stream  [sh, sd, name]                                       primary key sh; sd REFERENCES blob
                                                                  (name stands for stream_key/stream_name/suggested_filename:
                                                                   the three are written together from one descriptor)
     sblob   [sh, h, pos, iv, n]                                  stream_blob; primary key (sh, h) -- but the terminator row
                                                                  has h = NULL and NULLs never collide in an sqlite key, so the
                                                                  table is a BAG: n = number of identical rows
     file    [rid, sh, fname, ddir, rate, status, saved, fee, added]   NO key at all (rid = sqlite rowid, returned by the API)
     claim   [rid, op, cid, kind, sd, height, seq, chan]          primary key op (rid orders get_all_lbry_files)
     cclaim  [sh, op]                                             content_claim; op UNIQUE, REFERENCES claim; sh REFERENCES stream
     refl    [sd, addr, ts]                                       reflected_stream; primary key (sd, addr)
     peer    [nid, addr, udp, tcp]                                primary key nid, UNIQUE (addr, udp)
   (torrent*, support are outside the statement.)

   What the code does and the statement did not expect (modelled as the code does it, clauses restated below):
     D1  PRAGMA foreign_keys is ON for the writer connection, but delete_stream, delete_blobs_from_db and recover_streams
         run with it switched OFF.  delete_blobs_from_db removes blob rows that stream_blob / stream.sd_hash still
         name, and delete_stream removes EVERY blob row its descriptor names, shared with another stream or not.
         A stream_blob row whose blob row is gone is a state the code expects (get_blobs_for_stream LEFT JOINs and
         reports length 0); add_blobs / store_stream put the row back.  Restated: a reference to a missing blob row
         is only ever created by those three calls (DanglingOnlyByDelete) and every stream_blob row names an existing
         STREAM (RefStreamBlob), every file row an existing stream (RefFile), every content_claim row an existing
         stream and claim (RefContentClaim).
     D2  delete_stream is told WHAT to delete by the descriptor object it is handed, not by the stored rows.
     D3  the file table has no key: "insert or replace" always inserts; a second save_*_file for the same stream
         adds a second row, and the rowid returned is the FIRST row's.
     D4  store_stream called again for a stored stream adds one more terminator row (NULL key column).
     D5  get_all_lbry_files INNER JOINs content_claim and claim: a file without a claim is not listed.
     D6  save_claims associates a saved stream claim with the FILE whose stream has that sd hash, through the same
         check as save_content_claim; when the check refuses (another claim id) the whole batch is rolled back.
     D7  recover_streams deletes and re-creates the stream: blob rows come back "pending" with should_announce 0,
         the file row gets wall-clock added_on (WALL) and conf.download_dir.
     D8  add_blobs / store_stream silently skip a row whose length is None (NOT NULL + OR IGNORE).

   Everything is a pure function  Apply(T, c, t, dsk) -> [T, err, ret]  (T = record of tables, c = [call, args]);
   Step(c) commits it as one transaction: on err nothing is written.  The same functions judge recorded real
   executions in StorageTrace.tla. *)
EXTENDS Integers, Sequences, FiniteSets, TLC

CONSTANTS
  HALF,        \* DATA_EXPIRATION / 2 in clock units
  DAY,         \* 86400 s in clock units
  LIMIT,       \* conf.concurrent_blob_announcers * 10
  HEADSD,      \* conf.announce_head_and_sd_only
  CONFDIR,     \* conf.download_dir
  QSH, QSD, QH,  \* the arguments the read calls are observed with (stream hashes, sd hashes, blob hashes)
  OBSERVE,     \* compute obs (FALSE: obs = 0, cheaper exhaustive runs)
  \* negative controls: all FALSE = the code as read
  NC_DEL_KEEPS_SBLOB,     \* delete_stream forgets the stream_blob rows
  NC_STORE_REPLACES,      \* store_stream uses INSERT OR REPLACE on blob
  NC_NO_ROLLBACK,         \* a failing call keeps what it wrote before the failure
  NC_NO_CLAIMID_CHECK,    \* save_content_claim accepts a claim that is not an update of the associated one
  NC_FILE_NO_FK           \* store_file does not check that the stream exists

VARIABLES blob, stream, sblob, file, claim, cclaim, refl, peer,    \* the tables
          disk,      \* environment: {<<dir, name>>} files present in the download directories
          now,       \* environment: the clock (time_getter)
          last,      \* the last call: [call, args, out ("ok" | "raise"), ret]
          obs        \* what every read call returns in this state (function of the tables, now)

tables == <<blob, stream, sblob, file, claim, cclaim, refl, peer>>
vars == <<tables, disk, now, last, obs>>

NONE == -1
WALL == -2           \* a wall-clock value (time.time()), not modelled further
NoRet == <<>>

Cur == [blob |-> blob, stream |-> stream, sblob |-> sblob, file |-> file, claim |-> claim, cclaim |-> cclaim,
        refl |-> refl, peer |-> peer]
Empty == [blob |-> {}, stream |-> {}, sblob |-> {}, file |-> {}, claim |-> {}, cclaim |-> {}, refl |-> {}, peer |-> {}]

Range(q) == {q[i] : i \in DOMAIN q}
MaxRid(R) == IF R = {} THEN 0 ELSE CHOOSE m \in {r.rid : r \in R} : \A r \in R : r.rid <= m
MinRid(R) == CHOOSE m \in {r.rid : r \in R} : \A r \in R : m <= r.rid
OkR(T, ret) == [T |-> T, err |-> "", ret |-> ret]
ErrR(T, why) == [T |-> T, err |-> why, ret |-> NoRet]      \* T = what had been written when the exception came

BlobHs(T) == {r.h : r \in T.blob}
StreamHs(T) == {r.sh : r \in T.stream}

---------------------------------------------------------------------------
(* blob rows *)
NewBlob(h, len, st, added, mine) ==
  [h |-> h, len |-> len, nat |-> 0, sa |-> 0, st |-> st, lat |-> 0, single |-> 0, added |-> added, mine |-> mine]
Insertable(r) == r.h # "NULL" /\ r.len # NONE         \* NOT NULL columns; OR IGNORE skips the row (D8)
InsIdx(rows) == {i \in DOMAIN rows : Insertable(rows[i])}
\* executemany("insert or ignore into blob ..."): first row of the batch with a new hash wins
InsIgnore(B, rows) ==
  LET new == {rows[i].h : i \in InsIdx(rows)} \ {r.h : r \in B}
      first(h) == CHOOSE i \in InsIdx(rows) : rows[i].h = h /\ \A j \in InsIdx(rows) : rows[j].h = h => i <= j
  IN B \cup {rows[first(h)] : h \in new}
InsReplace(B, rows) ==
  LET hs == {rows[i].h : i \in InsIdx(rows)}
      lastof(h) == CHOOSE i \in InsIdx(rows) : rows[i].h = h /\ \A j \in InsIdx(rows) : rows[j].h = h => j <= i
  IN {r \in B : r.h \notin hs} \cup {rows[lastof(h)] : h \in hs}
UpdBlob(B, hs, f(_)) == {IF r.h \in hs THEN f(r) ELSE r : r \in B}

\* add_blobs(*(hash, length, added_on, is_mine), finished): rows = sequence of [h, len, added, mine]; bad = a tuple of
\* the wrong arity at the END of the batch (ValueError inside executemany, after the good rows were written)
AddBlobs(T, a) ==
  LET st == IF a.fin THEN "finished" ELSE "pending"
      rows == [i \in DOMAIN a.rows |-> NewBlob(a.rows[i].h, a.rows[i].len, st, a.rows[i].added, a.rows[i].mine)]
      B1 == InsIgnore(T.blob, rows)
      SetFin(r) == [r EXCEPT !.st = "finished"]
      B2 == IF a.fin THEN UpdBlob(B1, {a.rows[i].h : i \in DOMAIN a.rows}, SetFin) ELSE B1
  IN IF a.bad THEN ErrR([T EXCEPT !.blob = B1], "ValueError") ELSE OkR([T EXCEPT !.blob = B2], NoRet)

SetAnnounce(T, a) ==       \* "where blob_hash in (?, ?)": exactly two bindings
  LET f(r) == [r EXCEPT !.sa = 1] IN
  IF Len(a.hs) # 2 THEN ErrR(T, "ProgrammingError") ELSE OkR([T EXCEPT !.blob = UpdBlob(@, Range(a.hs), f)], NoRet)

UpdateLastAnnounced(T, a, t) ==
  LET f(r) == [r EXCEPT !.nat = t + HALF, !.lat = t, !.single = 0] IN OkR([T EXCEPT !.blob = UpdBlob(@, Range(a.hs), f)], NoRet)

ShouldSingleAnnounce(T, a, t) ==
  LET f(r) == IF r.st # "finished" THEN r ELSE IF a.immediate THEN [r EXCEPT !.single = 1, !.nat = t] ELSE [r EXCEPT !.single = 1]
  IN OkR([T EXCEPT !.blob = UpdBlob(@, Range(a.hs), f)], NoRet)

DeleteBlobs(T, a) == OkR([T EXCEPT !.blob = {r \in @ : r.h \notin Range(a.hs)}], NoRet)     \* foreign keys OFF (D1)

\* sync_missing_blobs(blob_files): finished rows whose file is not there go back to pending; returns files /\ finished.
\* bad = the argument is a list: .intersection raises AFTER the update ran
SyncMissing(T, a) ==
  LET fin == {r.h : r \in {x \in T.blob : x.st = "finished"}}
      f(r) == [r EXCEPT !.st = "pending"]
      T1 == [T EXCEPT !.blob = UpdBlob(@, fin \ Range(a.files), f)]
  IN IF a.bad THEN ErrR(T1, "AttributeError") ELSE OkR(T1, Range(a.files) \cap fin)

\* update blob set is_mine=? where blob_hash in (blob NATURAL JOIN stream_blob NATURAL JOIN stream where sd_hash=?) or blob_hash=?
UpdateOwnership(T, a) ==
  LET shs == {s.sh : s \in {x \in T.stream : x.sd = a.sd}}
      hs == {r.h : r \in {x \in T.sblob : x.sh \in shs}} \cup {a.sd}
      f(r) == [r EXCEPT !.mine = a.mine]
  IN OkR([T EXCEPT !.blob = UpdBlob(@, hs, f)], NoRet)

---------------------------------------------------------------------------
(* streams.  A descriptor d = [sh, name, key (BOOLEAN: a key is present), blobs (data blobs: sequence of
   [h, len, added, mine, iv]), tiv (iv of the terminator), sd |-> [h, len, added, mine]] -- sd is the sd_blob argument
   of store_stream and d.sd.h the descriptor's sd_hash *)
DescHashes(d) == {d.blobs[i].h : i \in DOMAIN d.blobs} \cup {d.sd.h}

\* module-level store_stream; fk = foreign keys enforced
StoreStreamFx(T, d, fk) ==
  LET rows == [i \in 1..(Len(d.blobs) + 1) |->
                 IF i <= Len(d.blobs) THEN NewBlob(d.blobs[i].h, d.blobs[i].len, "pending", d.blobs[i].added, d.blobs[i].mine)
                 ELSE NewBlob(d.sd.h, d.sd.len, "pending", d.sd.added, d.sd.mine)]
      B1 == IF NC_STORE_REPLACES THEN InsReplace(T.blob, rows) ELSE InsIgnore(T.blob, rows)
      had == d.sh \in StreamHs(T)
      S1 == IF had \/ ~d.key THEN T.stream          \* primary key / NOT NULL stream_key: the insert is ignored
            ELSE T.stream \cup {[sh |-> d.sh, sd |-> d.sd.h, name |-> d.name]}
      fkStream == S1 = T.stream \/ d.sd.h \in {r.h : r \in B1}
      newIdx == {i \in DOMAIN d.blobs : /\ ~\E r \in T.sblob : r.sh = d.sh /\ r.h = d.blobs[i].h
                                        /\ \A k \in 1..(i - 1) : d.blobs[k].h # d.blobs[i].h}
      fkRows == /\ d.sh \in {s.sh : s \in S1}
                /\ \A i \in newIdx : d.blobs[i].h \in {r.h : r \in B1}
      data == {[sh |-> d.sh, h |-> d.blobs[i].h, pos |-> i - 1, iv |-> d.blobs[i].iv, n |-> 1] : i \in newIdx}
      old == {r \in T.sblob : r.sh = d.sh /\ r.h = "NULL" /\ r.pos = Len(d.blobs) /\ r.iv = d.tiv}
      term == [sh |-> d.sh, h |-> "NULL", pos |-> Len(d.blobs), iv |-> d.tiv,
               n |-> IF old = {} THEN 1 ELSE (CHOOSE r \in old : TRUE).n + 1]                    \* D4
      SB1 == (T.sblob \ old) \cup data \cup {term}
      f(r) == [r EXCEPT !.sa = 1]
      B2 == UpdBlob(B1, {d.sd.h}, f)
  IN IF fk /\ ~fkStream THEN ErrR([T EXCEPT !.blob = B1], "IntegrityError")
     ELSE IF fk /\ ~fkRows THEN ErrR([T EXCEPT !.blob = B1, !.stream = S1], "IntegrityError")
     ELSE OkR([T EXCEPT !.blob = B2, !.stream = S1, !.sblob = SB1], NoRet)

\* module-level delete_stream (always foreign keys OFF): what goes is named by the descriptor (D1, D2)
DeleteStreamFx(T, d) ==
  [T EXCEPT !.cclaim = {r \in @ : r.sh # d.sh},
            !.file = {r \in @ : r.sh # d.sh},
            !.sblob = IF NC_DEL_KEEPS_SBLOB THEN @ ELSE {r \in @ : r.sh # d.sh},
            !.stream = {r \in @ : r.sh # d.sh},
            !.blob = {r \in @ : r.h \notin DescHashes(d)}]

\* module-level store_file.  a = [sh, fname, ddir, rate, fee, added]
StoreFileFx(T, a, status, fk, dsk) ==
  LET row == [rid |-> MaxRid(T.file) + 1, sh |-> a.sh, fname |-> a.fname, ddir |-> a.ddir, rate |-> a.rate,
              status |-> status, saved |-> IF a.fname # "NULL" /\ a.ddir # "NULL" /\ <<a.ddir, a.fname>> \in dsk THEN 1 ELSE 0,
              fee |-> a.fee, added |-> a.added]
      T1 == [T EXCEPT !.file = @ \cup {row}]                                                       \* D3
  IN IF (a.fname = "NULL") # (a.ddir = "NULL") THEN ErrR(T, "AttributeError")    \* None.encode()
     ELSE IF status = "NULL" THEN ErrR(T, "IntegrityError")                      \* NOT NULL
     ELSE IF fk /\ ~NC_FILE_NO_FK /\ a.sh \notin StreamHs(T) THEN ErrR(T, "IntegrityError")
     ELSE OkR(T1, MinRid({r \in T1.file : r.sh = a.sh}))

UpdFile(F, shs, f(_)) == {IF r.sh \in shs THEN f(r) ELSE r : r \in F}

ChangeFileStatus(T, a) ==
  LET f(r) == [r EXCEPT !.status = a.status] IN
  IF a.status = "NULL" /\ \E r \in T.file : r.sh = a.sh THEN ErrR(T, "IntegrityError")
  ELSE OkR([T EXCEPT !.file = UpdFile(@, {a.sh}, f)], NoRet)
StopAllFiles(T) == OkR([T EXCEPT !.file = {[r EXCEPT !.status = "stopped"] : r \in @}], NoRet)
ChangeDirAndName(T, a) ==
  LET both == a.fname # "NULL" /\ a.ddir # "NULL"
      f(r) == [r EXCEPT !.fname = IF both THEN a.fname ELSE "NULL", !.ddir = IF both THEN a.ddir ELSE "NULL"]
  IN OkR([T EXCEPT !.file = UpdFile(@, {a.sh}, f)], NoRet)
SetSaved(T, a, v) == LET f(r) == [r EXCEPT !.saved = v] IN OkR([T EXCEPT !.file = UpdFile(@, {a.sh}, f)], NoRet)
SaveContentFee(T, a) == LET f(r) == [r EXCEPT !.fee = a.fee] IN OkR([T EXCEPT !.file = UpdFile(@, {a.sh}, f)], NoRet)

\* update_manually_removed_files_since_last_run: {stream_hash: (dir, name)} over the rows with saved_file=1 (a later row
\* of the same stream overwrites an earlier one), those whose file is gone lose name, directory and the flag -- every
\* row of the stream (two transactions; nothing can fail in between but the disk)
ManuallyRemoved(T, dsk) ==
  LET cand == {r \in T.file : r.saved = 1 /\ r.sh # "NULL" /\ r.ddir # "NULL" /\ r.fname # "NULL"}
      rep(sh) == CHOOSE r \in cand : r.sh = sh /\ \A x \in cand : x.sh = sh => x.rid <= r.rid
      gone == {sh \in {r.sh : r \in cand} : <<rep(sh).ddir, rep(sh).fname>> \notin dsk}
      f(r) == [r EXCEPT !.fname = "NULL", !.ddir = "NULL", !.saved = 0]
  IN OkR([T EXCEPT !.file = UpdFile(@, gone, f)], NoRet)

---------------------------------------------------------------------------
(* claims.  A claim info i = [op, cid, kind ("stream" | "channel"), sd, height, seq, chan] *)
ClaimRow(C, op) == CHOOSE c \in C : c.op = op

\* _save_content_claim(transaction, claim_outpoint, stream_hash)
SaveContentClaimFx(T, op, sh) ==
  LET cur == {r \in T.cclaim : r.sh = sh}
      curop == (CHOOSE r \in cur : TRUE).op
      CC1 == (T.cclaim \ cur) \cup {[sh |-> sh, op |-> op]}
  IN IF ~\E c \in T.claim : c.op = op THEN ErrR(T, "claim not found")
     ELSE IF ClaimRow(T.claim, op).kind # "stream" THEN ErrR(T, "claim does not contain a stream")
     ELSE IF sh \notin StreamHs(T) THEN ErrR(T, "stream not found")
     ELSE IF (CHOOSE s \in T.stream : s.sh = sh).sd # ClaimRow(T.claim, op).sd THEN ErrR(T, "stream mismatch")
     ELSE IF cur # {} /\ ~NC_NO_CLAIMID_CHECK /\ ClaimRow(T.claim, curop).cid # ClaimRow(T.claim, op).cid
          THEN ErrR(T, "mismatching claim ids")
     ELSE IF \E r \in T.cclaim \ cur : r.op = op THEN ErrR([T EXCEPT !.cclaim = @ \ cur], "IntegrityError")   \* UNIQUE outpoint
     ELSE OkR([T EXCEPT !.cclaim = CC1], IF cur = {} THEN "NULL" ELSE curop)

\* save_claims(claim_infos): "insert or replace into claim" per info, then the association (D6)
RECURSIVE SaveClaimsLoop(_, _, _, _)
SaveClaimsLoop(T, infos, k, todo) ==      \* returns <<T, todo>>
  IF k > Len(infos) THEN <<T, todo>>
  ELSE LET i == infos[k]
           row == [rid |-> MaxRid(T.claim) + 1, op |-> i.op, cid |-> i.cid, kind |-> i.kind, sd |-> i.sd,
                   height |-> i.height, seq |-> i.seq, chan |-> i.chan]
           T1 == [T EXCEPT !.claim = {c \in @ : c.op # i.op} \cup {row}]
           withFile == {s \in T.stream : s.sd = i.sd /\ \E f \in T.file : f.sh = s.sh}
       IN IF i.kind = "stream" /\ withFile # {}
          THEN SaveClaimsLoop(T1, infos, k + 1, Append(todo, <<(CHOOSE s \in withFile : TRUE).sh, i.op>>))
          ELSE SaveClaimsLoop(T1, infos, k + 1, todo)
RECURSIVE AssocLoop(_, _, _)
AssocLoop(T, todo, k) ==
  IF k > Len(todo) THEN OkR(T, NoRet)
  ELSE LET r == SaveContentClaimFx(T, todo[k][2], todo[k][1]) IN IF r.err # "" THEN r ELSE AssocLoop(r.T, todo, k + 1)
SaveClaims(T, a) == LET p == SaveClaimsLoop(T, a.infos, 1, <<>>) IN AssocLoop(p[1], p[2], 1)

UpdateReflected(T, a, t) ==
  IF a.success THEN OkR([T EXCEPT !.refl = {r \in @ : ~(r.sd = a.sd /\ r.addr = a.addr)} \cup {[sd |-> a.sd, addr |-> a.addr, ts |-> t]}], NoRet)
  ELSE OkR([T EXCEPT !.refl = {r \in @ : ~(r.sd = a.sd /\ r.addr = a.addr)}], NoRet)

\* recover_streams([(descriptor, sd_blob, content_fee)], download_directory): foreign keys OFF (D7)
RECURSIVE RecoverLoop(_, _, _, _, _)
RecoverLoop(T, items, k, ddir, dsk) ==
  IF k > Len(items) THEN OkR(T, NoRet)
  ELSE LET d == items[k].d
           cc == {r \in T.cclaim : r.sh = d.sh}
           T1 == DeleteStreamFx(T, d)
           r2 == StoreStreamFx(T1, d, FALSE)
           r3 == StoreFileFx(r2.T, [sh |-> d.sh, fname |-> d.name, ddir |-> ddir, rate |-> 0,
                                    fee |-> items[k].fee, added |-> WALL], "stopped", FALSE, dsk)
           \* "insert or ignore into content_claim": an outpoint taken meanwhile is skipped
           T4 == [r3.T EXCEPT !.cclaim = @ \cup {r \in cc : ~\E x \in r3.T.cclaim : x.op = r.op}]
       IN IF r3.err # "" THEN r3 ELSE RecoverLoop(T4, items, k + 1, ddir, dsk)
RecoverStreams(T, a, dsk) ==
  LET r == RecoverLoop(T, a.items, 1, a.ddir, dsk)
      shs == {a.items[i].d.sh : i \in DOMAIN a.items}
      f(x) == [x EXCEPT !.status = "stopped", !.ddir = CONFDIR]
  IN IF r.err # "" THEN r ELSE OkR([r.T EXCEPT !.file = UpdFile(@, shs, f)], NoRet)

\* save_kademlia_peers(peers): delete all, plain insert each
SavePeers(T, a) ==
  LET dup == \E i, j \in DOMAIN a.peers : i < j /\ (a.peers[i].nid = a.peers[j].nid \/
                 (a.peers[i].addr = a.peers[j].addr /\ a.peers[i].udp = a.peers[j].udp))
  IN IF dup THEN ErrR([T EXCEPT !.peer = {}], "IntegrityError") ELSE OkR([T EXCEPT !.peer = Range(a.peers)], NoRet)

---------------------------------------------------------------------------
(* one public call = one transaction *)
Apply(T, c, t, dsk) ==
  CASE c.call = "add_blobs" -> AddBlobs(T, c.args)
    [] c.call = "set_announce" -> SetAnnounce(T, c.args)
    [] c.call = "update_last_announced_blobs" -> UpdateLastAnnounced(T, c.args, t)
    [] c.call = "should_single_announce_blobs" -> ShouldSingleAnnounce(T, c.args, t)
    [] c.call = "delete_blobs_from_db" -> DeleteBlobs(T, c.args)
    [] c.call = "sync_missing_blobs" -> SyncMissing(T, c.args)
    [] c.call = "update_blob_ownership" -> UpdateOwnership(T, c.args)
    [] c.call = "store_stream" -> StoreStreamFx(T, c.args.d, TRUE)
    [] c.call = "delete_stream" -> OkR(DeleteStreamFx(T, c.args.d), NoRet)
    [] c.call = "save_published_file" -> StoreFileFx(T, c.args, c.args.status, TRUE, dsk)
    [] c.call = "save_downloaded_file" -> StoreFileFx(T, c.args, "running", TRUE, dsk)
    [] c.call = "change_file_status" -> ChangeFileStatus(T, c.args)
    [] c.call = "stop_all_files" -> StopAllFiles(T)
    [] c.call = "change_file_download_dir_and_file_name" -> ChangeDirAndName(T, c.args)
    [] c.call = "set_saved_file" -> SetSaved(T, c.args, 1)
    [] c.call = "clear_saved_file" -> SetSaved(T, c.args, 0)
    [] c.call = "save_content_fee" -> SaveContentFee(T, c.args)
    [] c.call = "update_manually_removed_files_since_last_run" -> ManuallyRemoved(T, dsk)
    [] c.call = "save_claims" -> SaveClaims(T, c.args)
    [] c.call = "save_content_claim" -> SaveContentClaimFx(T, c.args.op, c.args.sh)
    [] c.call = "update_reflected_stream" -> UpdateReflected(T, c.args, t)
    [] c.call = "recover_streams" -> RecoverStreams(T, c.args, dsk)
    [] c.call = "save_kademlia_peers" -> SavePeers(T, c.args)

---------------------------------------------------------------------------
(* the read calls as functions of the tables *)
ChanName(T, c) == IF c.chan # "NULL" /\ \E x \in T.claim : x.cid = c.chan THEN c.chan ELSE "NULL"   \* claim_name is a function of the claim id
ClaimView(T, c) == [op |-> c.op, cid |-> c.cid, crid |-> c.rid, height |-> c.height, seq |-> c.seq, chan |-> c.chan,
                    channame |-> ChanName(T, c)]
\* get_all_lbry_files: file JOIN stream JOIN content_claim JOIN claim, ordered by claim rowid descending (D5)
AllFiles(T) ==
  {[rid |-> q[1].rid, sh |-> q[1].sh, fname |-> q[1].fname, ddir |-> q[1].ddir, rate |-> q[1].rate, status |-> q[1].status,
    saved |-> q[1].saved, fee |-> q[1].fee, added |-> q[1].added, sd |-> q[2].sd, name |-> q[2].name,
    claim |-> ClaimView(T, q[4]), refl |-> IF \E r \in T.refl : r.sd = q[2].sd THEN 1 ELSE 0]
   : q \in {p \in T.file \X T.stream \X T.cclaim \X T.claim : p[1].sh = p[2].sh /\ p[3].sh = p[1].sh /\ p[4].op = p[3].op}}
\* get_blobs_for_stream(sh, only_completed): rows by position up to and including the first terminator; the length is
\* 0 unless the blob row exists (and is finished when only_completed); added_on of a missing row is the wall clock
BlobsFor(T, sh, done) ==
  LET rows == {r \in T.sblob : r.sh = sh}
      terms == {r \in rows : r.h = "NULL"}
      upto == {r \in rows : r.h # "NULL" /\ \A z \in terms : r.pos < z.pos}
      firstTerm == {z \in terms : \A y \in terms : z.pos <= y.pos}
      view(r) == LET b == {x \in T.blob : x.h = r.h}
                     bb == CHOOSE x \in b : TRUE
                 IN [h |-> r.h, pos |-> r.pos, iv |-> r.iv,
                     len |-> IF b # {} /\ (done => bb.st = "finished") THEN bb.len ELSE 0,
                     added |-> IF b # {} /\ bb.added # 0 THEN bb.added ELSE WALL]
  IN {view(r) : r \in upto \cup firstTerm}
\* get_blobs_to_announce: the candidates; the call returns the LIMIT first by next_announce_time
Announceable(T, t) == {[h |-> r.h, nat |-> r.nat] : r \in {x \in T.blob : x.st = "finished" /\ x.nat < t /\ (HEADSD => (x.sa = 1 \/ x.single = 1))}}
ContentClaim(T, sh) ==
  LET j == {p \in T.cclaim \X T.claim : p[1].sh = sh /\ p[2].op = p[1].op}
  IN IF j = {} THEN {} ELSE {ClaimView(T, (CHOOSE p \in j : \A o \in j : p[2].rid <= o[2].rid)[2])}
\* get_streams_to_re_reflect: stream LEFT JOIN reflected_stream where timestamp is null or older than a day: one entry per joined row
ReReflect(T, t) == {[sd |-> s.sd, n |-> IF \A r \in T.refl : r.sd # s.sd THEN 1 ELSE Cardinality({r \in T.refl : r.sd = s.sd /\ r.ts < t - DAY})] : s \in T.stream}
Observe(T, t) ==
  [files |-> AllFiles(T),
   sball |-> [sh \in QSH |-> BlobsFor(T, sh, FALSE)],
   sbdone |-> [sh \in QSH |-> BlobsFor(T, sh, TRUE)],
   sh4sd |-> [sd \in QSD |-> {s.sh : s \in {x \in T.stream : x.sd = sd}}],          \* get_stream_hash_for_sd_hash / stream_exists
   sd4sh |-> [sh \in QSH |-> {s.sd : s \in {x \in T.stream : x.sh = sh}}],          \* get_sd_blob_hash_for_stream
   fexists |-> [sd \in QSD |-> \E s \in T.stream : s.sd = sd /\ \E f \in T.file : f.sh = s.sh],
   allblobs |-> BlobHs(T), allstreams |-> StreamHs(T),
   status |-> [h \in QH |-> {r.st : r \in {x \in T.blob : x.h = h}}],                 \* get_blob_status
   announce |-> Announceable(T, t),
   cclaim |-> [sh \in QSH |-> ContentClaim(T, sh)],
   rereflect |-> {r \in ReReflect(T, t) : r.n > 0},
   peers |-> T.peer]

---------------------------------------------------------------------------
(* the state machine *)
Init == /\ blob = {} /\ stream = {} /\ sblob = {} /\ file = {} /\ claim = {} /\ cclaim = {} /\ refl = {} /\ peer = {}
        /\ disk = {} /\ now = 1
        /\ last = [call |-> "open", args |-> <<>>, out |-> "ok", ret |-> NoRet]
        /\ obs = IF OBSERVE THEN Observe(Empty, 1) ELSE 0

Commit(T) == /\ blob' = T.blob /\ stream' = T.stream /\ sblob' = T.sblob /\ file' = T.file
             /\ claim' = T.claim /\ cclaim' = T.cclaim /\ refl' = T.refl /\ peer' = T.peer
ObsNext == obs' = IF OBSERVE THEN Observe([blob |-> blob', stream |-> stream', sblob |-> sblob', file |-> file', claim |-> claim',
                                            cclaim |-> cclaim', refl |-> refl', peer |-> peer'], now') ELSE 0

Step(c) ==
  LET r == Apply(Cur, c, now, disk) IN
  /\ IF r.err = "" \/ NC_NO_ROLLBACK THEN Commit(r.T) ELSE UNCHANGED tables          \* begin ... commit | rollback
  /\ last' = [call |-> c.call, args |-> c.args, out |-> IF r.err = "" THEN "ok" ELSE "raise", ret |-> IF r.err = "" THEN r.ret ELSE r.err]
  /\ UNCHANGED <<disk, now>>
  /\ ObsNext

\* one named action per public call (the arguments are whatever the caller passes)
Call_add_blobs(a) == Step([call |-> "add_blobs", args |-> a])
Call_set_announce(a) == Step([call |-> "set_announce", args |-> a])
Call_update_last_announced_blobs(a) == Step([call |-> "update_last_announced_blobs", args |-> a])
Call_should_single_announce_blobs(a) == Step([call |-> "should_single_announce_blobs", args |-> a])
Call_delete_blobs_from_db(a) == Step([call |-> "delete_blobs_from_db", args |-> a])
Call_sync_missing_blobs(a) == Step([call |-> "sync_missing_blobs", args |-> a])
Call_update_blob_ownership(a) == Step([call |-> "update_blob_ownership", args |-> a])
Call_store_stream(a) == Step([call |-> "store_stream", args |-> a])
Call_delete_stream(a) == Step([call |-> "delete_stream", args |-> a])
Call_save_published_file(a) == Step([call |-> "save_published_file", args |-> a])
Call_save_downloaded_file(a) == Step([call |-> "save_downloaded_file", args |-> a])
Call_change_file_status(a) == Step([call |-> "change_file_status", args |-> a])
Call_stop_all_files == Step([call |-> "stop_all_files", args |-> <<>>])
Call_change_file_download_dir_and_file_name(a) == Step([call |-> "change_file_download_dir_and_file_name", args |-> a])
Call_set_saved_file(a) == Step([call |-> "set_saved_file", args |-> a])
Call_clear_saved_file(a) == Step([call |-> "clear_saved_file", args |-> a])
Call_save_content_fee(a) == Step([call |-> "save_content_fee", args |-> a])
Call_update_manually_removed_files == Step([call |-> "update_manually_removed_files_since_last_run", args |-> <<>>])
Call_save_claims(a) == Step([call |-> "save_claims", args |-> a])
Call_save_content_claim(a) == Step([call |-> "save_content_claim", args |-> a])
Call_update_reflected_stream(a) == Step([call |-> "update_reflected_stream", args |-> a])
Call_recover_streams(a) == Step([call |-> "recover_streams", args |-> a])
Call_save_kademlia_peers(a) == Step([call |-> "save_kademlia_peers", args |-> a])

\* environment
Tick == /\ now' = now + 1 /\ UNCHANGED <<tables, disk>>
        /\ last' = [call |-> "tick", args |-> <<>>, out |-> "ok", ret |-> NoRet] /\ ObsNext
DiskToggle(p) == /\ disk' = (IF p \in disk THEN disk \ {p} ELSE disk \cup {p})
                 /\ UNCHANGED <<tables, now>>
                 /\ last' = [call |-> "disk", args |-> [dir |-> p[1], name |-> p[2]], out |-> "ok", ret |-> NoRet] /\ ObsNext

---------------------------------------------------------------------------
(* the clauses.  State clauses are operators of a table record so that StorageTrace can evaluate them on recorded states *)
KeysOn(T) ==
  /\ \A a, b \in T.blob : a.h = b.h => a = b
  /\ \A a, b \in T.stream : a.sh = b.sh => a = b
  /\ \A a, b \in T.sblob : (a.sh = b.sh /\ a.h = b.h /\ a.h # "NULL") => a = b
  /\ \A a \in T.sblob : a.n >= 1 /\ (a.h # "NULL" => a.n = 1)
  /\ \A a, b \in T.file : a.rid = b.rid => a = b
  /\ \A a, b \in T.claim : (a.op = b.op \/ a.rid = b.rid) => a = b
  /\ \A a, b \in T.cclaim : a.op = b.op => a = b
  /\ \A a, b \in T.refl : (a.sd = b.sd /\ a.addr = b.addr) => a = b
  /\ \A a, b \in T.peer : (a.nid = b.nid \/ (a.addr = b.addr /\ a.udp = b.udp)) => a = b
RefStreamBlobOn(T) == \A r \in T.sblob : r.sh \in StreamHs(T)
RefFileOn(T) == \A f \in T.file : f.sh \in StreamHs(T)
RefContentClaimOn(T) == \A c \in T.cclaim : c.sh \in StreamHs(T) /\ \E x \in T.claim : x.op = c.op
OneClaimPerStreamOn(T) == \A a, b \in T.cclaim : a.sh = b.sh => a = b
\* references to blob rows that are not there (D1)
DanglingOn(T) == {<<r.sh, r.h>> : r \in {x \in T.sblob : x.h # "NULL" /\ x.h \notin BlobHs(T)}}
                 \cup {<<s.sh, s.sd>> : s \in {x \in T.stream : x.sd \notin BlobHs(T)}}

Keys == KeysOn(Cur)
RefStreamBlob == RefStreamBlobOn(Cur)
RefFile == RefFileOn(Cur)
RefContentClaim == RefContentClaimOn(Cur)
OneClaimPerStream == OneClaimPerStreamOn(Cur)
QueriesConsistent ==          \* the read calls agree with each other (QueriesMatch itself is judged against the real code)
  OBSERVE => /\ obs = Observe(Cur, now)
             /\ \A sd \in QSD : obs.fexists[sd] => obs.sh4sd[sd] # {}
             /\ \A f \in obs.files : f.sh \in obs.allstreams /\ obs.cclaim[f.sh] # {}
             /\ \A sh \in QSH : {b.h : b \in obs.sball[sh]} = {b.h : b \in obs.sbdone[sh]}
             /\ \A a \in obs.announce : a.h \in obs.allblobs

\* action clauses (the primed side is written with the primed variables so that TLC checks them on every step)
Nxt == [blob |-> blob', stream |-> stream', sblob |-> sblob', file |-> file', claim |-> claim', cclaim |-> cclaim',
        refl |-> refl', peer |-> peer']
FailedCallChangesNothingA == last'.out = "raise" => UNCHANGED tables
DeleteExactA ==      \* as the code does it: everything of the stream and every blob row the descriptor names (D1, D2)
  (last'.call = "delete_stream" /\ last'.out = "ok") =>
     LET d == last'.args.d IN
       /\ file' = {r \in file : r.sh # d.sh} /\ cclaim' = {r \in cclaim : r.sh # d.sh}
       /\ sblob' = {r \in sblob : r.sh # d.sh} /\ stream' = {r \in stream : r.sh # d.sh}
       /\ blob' = {r \in blob : r.h \notin DescHashes(d)}
       /\ UNCHANGED <<claim, refl, peer>>
DeleteKeepsSharedA ==   \* the clause as the statement has it; the code does NOT satisfy it (witness of D1)
  (last'.call = "delete_stream" /\ last'.out = "ok") =>
     \A r \in blob : (\E x \in sblob' : x.h = r.h) => r \in blob'
DanglingOnlyByDeleteA ==
  DanglingOn(Nxt) \subseteq DanglingOn(Cur) \/ last'.call \in {"delete_blobs_from_db", "delete_stream", "recover_streams"}
FinishedStaysA ==     \* a completed blob stays completed unless the sync pass misses its file or its row is deleted
  last'.call \notin {"sync_missing_blobs", "delete_blobs_from_db", "delete_stream", "recover_streams"} =>
     \A r \in blob : r.st = "finished" => \E x \in blob' : x.h = r.h /\ x.st = "finished" /\ x.len = r.len
ClaimUpdateSameIdA == \* the claim associated with a stream is only ever replaced by another outpoint of the same claim id
  \A a \in cclaim : \A b \in cclaim' :
     (a.sh = b.sh /\ a.op # b.op /\ last'.call \in {"save_content_claim", "save_claims"}) =>
        \E x, y \in claim' : x.op = a.op /\ y.op = b.op /\ x.cid = y.cid
AssociationKeptA ==   \* a stream loses its content claim only with the stream itself (the claim may be replaced, see above)
  last'.call \notin {"delete_stream", "recover_streams"} => \A a \in cclaim : \E b \in cclaim' : b.sh = a.sh
OnlyOwnTablesA ==     \* a call writes only the tables it is about
  /\ last'.call \in {"add_blobs", "set_announce", "update_last_announced_blobs", "should_single_announce_blobs",
                     "delete_blobs_from_db", "sync_missing_blobs", "update_blob_ownership"} => UNCHANGED <<stream, sblob, file, claim, cclaim, refl, peer>>
  /\ last'.call \in {"save_published_file", "save_downloaded_file", "change_file_status", "stop_all_files", "set_saved_file",
                     "clear_saved_file", "save_content_fee", "change_file_download_dir_and_file_name",
                     "update_manually_removed_files_since_last_run"} => UNCHANGED <<blob, stream, sblob, claim, cclaim, refl, peer>>
  /\ last'.call = "store_stream" => UNCHANGED <<file, claim, cclaim, refl, peer>>
  /\ last'.call \in {"save_claims", "save_content_claim"} => UNCHANGED <<blob, stream, sblob, file, refl, peer>>
  /\ last'.call = "save_content_claim" => UNCHANGED claim

(* what each call is FOR (judged on the real code as clauses; the exact transformers above are only the reference for
   drift).  Stated on the step  tables -> tables'  with last' = the call. *)
OkCall(c) == last'.call = c /\ last'.out = "ok"
MapBlob(hs, f(_)) == blob' = {IF r.h \in hs THEN f(r) ELSE r : r \in blob}
AddBlobsA == OkCall("add_blobs") =>
  LET a == last'.args
      named == {a.rows[i].h : i \in DOMAIN a.rows}
      ins == {a.rows[i].h : i \in {j \in DOMAIN a.rows : a.rows[j].len # NONE}}
  IN /\ \A h \in ins : \E r \in blob' : r.h = h /\ (a.fin => r.st = "finished")
     /\ \A r \in blob : r \in blob' \/ (a.fin /\ r.h \in named /\ [r EXCEPT !.st = "finished"] \in blob')   \* a known blob keeps its row
     /\ \A x \in blob' : x.h \in BlobHs(Cur) \cup ins
SyncA == OkCall("sync_missing_blobs") =>
  LET fs == Range(last'.args.files)
      fin == {r.h : r \in {x \in blob : x.st = "finished"}}
      f(r) == [r EXCEPT !.st = "pending"]
  IN MapBlob(fin \ fs, f) /\ last'.ret = fs \cap fin
OwnershipA == OkCall("update_blob_ownership") =>
  LET a == last'.args
      own == {r.h : r \in {x \in sblob : x.sh \in {s.sh : s \in {y \in stream : y.sd = a.sd}}}} \cup {a.sd}
      f(r) == [r EXCEPT !.mine = a.mine]
  IN MapBlob(own, f)
AnnouncedA == OkCall("update_last_announced_blobs") =>
  LET f(r) == [r EXCEPT !.nat = now + HALF, !.lat = now, !.single = 0] IN MapBlob(Range(last'.args.hs), f)
DeleteBlobsA == OkCall("delete_blobs_from_db") => blob' = {r \in blob : r.h \notin Range(last'.args.hs)}
StoreStreamA == OkCall("store_stream") =>
  LET d == last'.args.d IN
  /\ \E s \in stream' : s.sh = d.sh
  /\ \A i \in DOMAIN d.blobs : /\ \E r \in sblob' : r.sh = d.sh /\ r.h = d.blobs[i].h
                               /\ d.blobs[i].len # NONE => d.blobs[i].h \in BlobHs(Nxt)
  /\ \E r \in sblob' : r.sh = d.sh /\ r.h = "NULL"
  /\ d.sd.len # NONE => \E r \in blob' : r.h = d.sd.h /\ r.sa = 1
  /\ \A r \in blob : \E x \in blob' : x.h = r.h /\ x.len = r.len /\ x.st = r.st /\ x.mine = r.mine /\ x.added = r.added
                                      /\ x.nat = r.nat /\ x.lat = r.lat /\ x.single = r.single     \* a known blob is not rewritten
  /\ stream \subseteq stream' /\ \A r \in sblob : r.h # "NULL" => r \in sblob'
StoreFileA == (last'.call \in {"save_published_file", "save_downloaded_file"} /\ last'.out = "ok") =>
  LET a == last'.args IN
  /\ file \subseteq file' /\ Cardinality(file') = Cardinality(file) + 1
  /\ \E f \in file' \ file : /\ f.sh = a.sh /\ f.fname = a.fname /\ f.ddir = a.ddir /\ f.added = a.added /\ f.fee = a.fee
                             /\ f.status = (IF last'.call = "save_downloaded_file" THEN "running" ELSE a.status)
  /\ \E f \in file' : f.sh = a.sh /\ f.rid = last'.ret                     \* the rowid returned is a row of that stream (D3)
FileStatusA == OkCall("change_file_status") =>
  file' = {IF r.sh = last'.args.sh THEN [r EXCEPT !.status = last'.args.status] ELSE r : r \in file}
SaveContentClaimA == OkCall("save_content_claim") =>
  LET a == last'.args IN
  /\ cclaim' = {r \in cclaim : r.sh # a.sh} \cup {[sh |-> a.sh, op |-> a.op]}
  /\ \E c \in claim : c.op = a.op /\ c.kind = "stream" /\ \E s \in stream : s.sh = a.sh /\ s.sd = c.sd      \* the claim names this stream
SaveClaimsA == OkCall("save_claims") =>
  LET is == last'.args.infos IN
  /\ \A k \in DOMAIN is : (\A j \in (k + 1)..Len(is) : is[j].op # is[k].op) =>
        \E c \in claim' : c.op = is[k].op /\ c.cid = is[k].cid /\ c.kind = is[k].kind /\ c.sd = is[k].sd /\ c.height = is[k].height
  /\ \A c \in claim : \E x \in claim' : x.op = c.op                                                          \* claims are never forgotten
  /\ \A c \in claim : c.op \notin {is[k].op : k \in DOMAIN is} => c \in claim'
ContractNames == <<"AddBlobs", "Sync", "Ownership", "Announced", "DeleteBlobs", "StoreStream", "StoreFile", "FileStatus",
                   "SaveContentClaim", "SaveClaims">>
CallContractsA == /\ AddBlobsA /\ SyncA /\ OwnershipA /\ AnnouncedA /\ DeleteBlobsA /\ StoreStreamA /\ StoreFileA /\ FileStatusA
                  /\ SaveContentClaimA /\ SaveClaimsA
CallContracts == [][CallContractsA]_vars

FailedCallChangesNothing == [][FailedCallChangesNothingA]_vars
DeleteExact == [][DeleteExactA]_vars
DeleteKeepsShared == [][DeleteKeepsSharedA]_vars
DanglingOnlyByDelete == [][DanglingOnlyByDeleteA]_vars
FinishedStays == [][FinishedStaysA]_vars
ClaimUpdateSameId == [][ClaimUpdateSameIdA]_vars
AssociationKept == [][AssociationKeptA]_vars
OnlyOwnTables == [][OnlyOwnTablesA]_vars
=============================================================================
