------------------------------ MODULE FeeConvert ------------------------------
(* G12 part 2 -- key fees: lbry/extras/daemon/exchange_rate_manager.py (ExchangeRateManager.convert_currency / to_dewies)
   and the purchase decision of lbry/wallet/manager.py WalletManager.create_purchase_transaction, case-analytic
   (pattern of Dewies.tla): every INITIAL STATE is one case, the expected result is computed HERE in exact integer
   arithmetic and emitted; the driver turns every case into one call of the real code.

   Amounts.  An amount is [c, s] = c * 10^s units of 1e-8 of its currency (dewies, satoshis, 1e-8 USD): the quoted decimal
   of a claim's fee (Fee.amount: LBC / BTC in 1e-8, USD in cents = s >= 6) or of max_key_fee.  TLC integers are 32 bit: c is
   small, results are [c, s] pairs and are compared / emitted as decimal digit sequences.

   Rates.  A feed's rate (spot: LBC per unit of the currency) is [m, sh] = m/16 * 10^sh -- dyadic, so that the float the
   real feed holds is EXACTLY this number and the only rounding left is the documented one: round(amount * rate, 8),
   half-even (decimal.Decimal).  A feed is "ok", "norate" (never answered) or "offline" (last answer older than
   update_interval + request_timeout).  convert_currency takes the MEDIAN of the ok feeds of the pair (cur, LBC).

   The code path:  to_dewies(cur, a) = lbc_to_dewies(str(convert_currency(cur, "LBC", a))).
     convert_currency: cur = LBC -> round(a, 8); otherwise no ok feed -> CurrencyConversionError ("conversion").
     str() of a Decimal with exponent -8 is in EXPONENT notation below 0.000001 ('9.9E-7', '0E-8') and lbc_to_dewies
     accepts 1..10 integer digits: the result exists for 100 <= dewies < 10^18, otherwise ValueError ("format").
     [Restated clause: a fee or a limit that converts to less than 100 dewies -- zero included -- is REFUSED by ValueError,
      it is neither bought nor treated as free.]
   create_purchase_transaction: fee = to_dewies(fee); unless override_max_key_fee or max_key_fee is None:
     limit = to_dewies(max_key_fee) (its errors propagate: an unconvertible LIMIT refuses the purchase);
     fee > limit -> KeyFeeAboveMaxAllowedError ("above"); then Transaction.purchase(claim_id, fee, fee.address or the
     claim's own address) -- InsufficientFundsError ("insufficient") when the wallet cannot fund it. *)
EXTENDS Naturals, Sequences, FiniteSets, TLC, Json

CONSTANTS EMIT,
          WRONGWAY,    \* negative control: the rate applied in the wrong direction (divide instead of multiply)
          ZEROMISSING  \* negative control: a missing rate treated as zero

VARIABLES kind,    \* "conv" | "buy"
          cur, amt,            \* the fee: currency and amount
          cfg,                 \* index into FEEDCFG
          lim,                 \* max_key_fee: "none" or [cur, amt]
          ovr,                 \* override_max_key_fee
          ownaddr              \* the fee names its own address (else the claim's address is paid)
vars == <<kind, cur, amt, cfg, lim, ovr, ownaddr>>

\* ------------------------------------------------------------------ digit sequences
RECURSIVE DigitsOf(_)
DigitsOf(n) == IF n < 10 THEN <<n>> ELSE Append(DigitsOf(n \div 10), n % 10)
RECURSIVE StripLead(_)
StripLead(q) == IF Len(q) > 1 /\ q[1] = 0 THEN StripLead(Tail(q)) ELSE q
Dig(a) == IF a.c = 0 THEN <<0>> ELSE DigitsOf(a.c) \o [i \in 1..a.s |-> 0]       \* the value of [c, s] in units
RECURSIVE LexGt(_, _)
LexGt(a, b) == IF a = <<>> THEN FALSE ELSE IF a[1] # b[1] THEN a[1] > b[1] ELSE LexGt(Tail(a), Tail(b))
Gt(a, b) == Len(a) > Len(b) \/ (Len(a) = Len(b) /\ LexGt(a, b))
Pow10(k) == IF k = 0 THEN 1 ELSE IF k = 1 THEN 10 ELSE IF k = 2 THEN 100 ELSE 1000

\* ------------------------------------------------------------------ the catalogue
A(c, s) == [c |-> c, s |-> s]
AMOUNTS == { A(0, 0), A(1, 0), A(50, 0), A(99, 0), A(100, 0), A(101, 0), A(3333, 0), A(33333, 0),      \* 1e-8 .. 0.00033333
             A(1, 6), A(99, 6), A(199, 6), A(25, 6), A(5000, 6),                                      \* 0.01 0.99 1.99 0.25 50.00
             A(5, 7), A(1, 8), A(3, 8), A(5, 9), A(30, 8), A(21, 14), A(1, 17), A(9, 17), A(1, 18) }    \* 0.5 1 3 50 30 21e6 1e9 9e9 1e10
R(m, sh) == [m |-> m, sh |-> sh]
F(st, r) == [st |-> st, r |-> r]
\* joint feed configurations: [btc |-> feeds of BTCLBC, usd |-> feeds of USDLBC]
FEEDCFG == <<
  [btc |-> <<>>,                                              usd |-> <<>>],
  [btc |-> <<F("ok", R(24, 6))>>,                             usd |-> <<F("ok", R(40, 0))>>],                      \* 1.5e6 ; 2.5
  [btc |-> <<F("ok", R(2, 0))>>,                              usd |-> <<F("ok", R(8, 0)), F("ok", R(24, 0))>>],     \* .125 ; median(.5,1.5)=1
  [btc |-> <<F("norate", R(24, 6))>>,                         usd |-> <<F("ok", R(8, 0)), F("ok", R(400, 0)), F("ok", R(24, 0))>>],  \* - ; median = 1.5
  [btc |-> <<F("offline", R(24, 6))>>,                        usd |-> <<F("ok", R(40, 0)), F("norate", R(8, 0))>>], \* - ; 2.5
  [btc |-> <<F("ok", R(24, 6)), F("offline", R(2, 0))>>,      usd |-> <<F("offline", R(40, 0)), F("ok", R(8, 0))>>], \* 1.5e6 ; .5
  [btc |-> <<F("ok", R(8, 0)), F("ok", R(40, 0))>>,           usd |-> <<F("norate", R(8, 0)), F("norate", R(8, 0))>>], \* 1.5 ; -
  [btc |-> <<>>,                                              usd |-> <<F("offline", R(40, 0))>>],
  [btc |-> <<F("ok", R(2, 0)), F("ok", R(8, 0))>>,            usd |-> <<F("ok", R(2, 0)), F("ok", R(8, 0))>>] >>   \* median(.125,.5) = .3125
CURRENCIES == {"LBC", "BTC", "USD", "EUR"}
NOLIM == [cur |-> "none", amt |-> A(0, 0)]       \* max_key_fee = None
LIMITS == {NOLIM} \cup {[cur |-> "LBC", amt |-> a] : a \in {A(1, 8), A(5, 9), A(5, 7), A(99, 0), A(0, 0)}}
                   \cup {[cur |-> "USD", amt |-> a] : a \in {A(5, 9), A(25, 6)}}
                   \cup {[cur |-> "BTC", amt |-> a] : a \in {A(1, 2)}}
                   \cup {[cur |-> "EUR", amt |-> a] : a \in {A(5, 9)}}
FUNDS == Dig(A(24, 8))          \* what the wallet of the driver holds: 8 outputs of 3.0 LBC

\* what a claim can say: LBC / BTC in 1e-8, USD in cents; a fee of zero is "no price"
Representable(c, a) == a.c > 0 /\ (c \in {"LBC", "BTC"} \/ (c = "USD" /\ a.s >= 6)) /\ Len(Dig(a)) <= 19

\* ------------------------------------------------------------------ the conversion
OkRates(c, k) == LET fs == IF c = "BTC" THEN FEEDCFG[k].btc ELSE IF c = "USD" THEN FEEDCFG[k].usd ELSE <<>>
                 IN SelectSeq(fs, LAMBDA f : f.st = "ok")
\* median of the ok rates (all of one configuration and market share sh); m stays an integer in 16ths
RECURSIVE Insert(_, _)
Insert(x, q) == IF q = <<>> THEN <<x>> ELSE IF x <= Head(q) THEN <<x>> \o q ELSE <<Head(q)>> \o Insert(x, Tail(q))
RECURSIVE SortM(_)
SortM(q) == IF q = <<>> THEN <<>> ELSE Insert(Head(q).r.m, SortM(Tail(q)))
Median(fs) == LET q == SortM(fs)  n == Len(q) IN
                R(IF n % 2 = 1 THEN q[(n + 1) \div 2] ELSE (q[n \div 2] + q[n \div 2 + 1]) \div 2, fs[1].r.sh)

\* round-half-even of x / d
RoundDiv(x, d) == LET q == x \div d  r == x % d IN
                    IF 2 * r > d \/ (2 * r = d /\ q % 2 = 1) THEN q + 1 ELSE q

\* amount a (units) times rate r, rounded to a whole unit: the exact value is a.c * r.m * 10^(a.s + r.sh) / 16
Times(a, r) ==
  LET t == a.s + r.sh IN
    IF WRONGWAY THEN A(RoundDiv(a.c * 16, r.m), t)                     \* control only
    ELSE IF t >= 4 THEN A(a.c * r.m * 625, t - 4)                      \* 10^4 / 16 = 625: exact
    ELSE A(RoundDiv(a.c * Pow10(t) * r.m, 16), 0)

\* to_dewies: [ok, v (digit sequence) | err]
Plain(v) == Len(v) >= 3 /\ Len(v) <= 18                                \* 100 <= dewies < 10^18
ToDewies(c, a, k) ==
  IF c = "LBC" THEN (IF Plain(Dig(a)) THEN [ok |-> TRUE, v |-> Dig(a)] ELSE [ok |-> FALSE, err |-> "format"])
  ELSE IF OkRates(c, k) = <<>> THEN
         (IF ZEROMISSING THEN [ok |-> FALSE, err |-> "format"] ELSE [ok |-> FALSE, err |-> "conversion"])
  ELSE LET v == Dig(Times(a, Median(OkRates(c, k)))) IN
         IF Plain(v) THEN [ok |-> TRUE, v |-> v] ELSE [ok |-> FALSE, err |-> "format"]

\* create_purchase_transaction
Decision(c, a, k, l, o) ==
  LET fee == ToDewies(c, a, k) IN
    IF ~fee.ok THEN [d |-> fee.err, v |-> <<>>]
    ELSE IF ~o /\ l.cur # "none" /\ ~ToDewies(l.cur, l.amt, k).ok THEN [d |-> ToDewies(l.cur, l.amt, k).err, v |-> <<>>]
    ELSE IF ~o /\ l.cur # "none" /\ Gt(fee.v, ToDewies(l.cur, l.amt, k).v) THEN [d |-> "above", v |-> fee.v]
    ELSE IF Gt(fee.v, FUNDS) THEN [d |-> "insufficient", v |-> fee.v]
    ELSE [d |-> "buy", v |-> fee.v]

\* ------------------------------------------------------------------ the cases
BUYAMOUNTS == {A(99, 0), A(100, 0), A(33333, 0), A(1, 6), A(199, 6), A(25, 6), A(5, 7), A(1, 8), A(3, 8), A(30, 8), A(5, 9)}
BUYCFG == {1, 2, 3, 5, 9}
Init ==
  \/ /\ kind = "conv" /\ cur \in CURRENCIES /\ amt \in AMOUNTS /\ cfg \in DOMAIN FEEDCFG
     /\ lim = NOLIM /\ ovr = FALSE /\ ownaddr = FALSE
  \/ /\ kind = "buy" /\ cur \in {"LBC", "BTC", "USD"} /\ amt \in BUYAMOUNTS /\ Representable(cur, amt) /\ cfg \in BUYCFG
     /\ lim \in LIMITS /\ ovr \in BOOLEAN /\ ownaddr \in BOOLEAN
     /\ (ovr => lim \in {NOLIM, [cur |-> "LBC", amt |-> A(5, 7)]})
Next == UNCHANGED vars
Spec == Init /\ [][Next]_vars

\* ------------------------------------------------------------------ the laws
Me == ToDewies(cur, amt, cfg)
\* monotone in the amount: a smaller quoted amount never costs more (same currency, same feeds), where both exist
Le(a, b) == ~Gt(Dig(a), Dig(b))
Monotone == \A b \in AMOUNTS : (Le(amt, b) /\ Me.ok /\ ToDewies(cur, b, cfg).ok) => ~Gt(Me.v, ToDewies(cur, b, cfg).v)
\* LBC is the identity on the quoted decimal
Identity == (cur = "LBC" /\ Me.ok) => Me.v = Dig(amt)
\* nothing is converted without an ok feed of exactly this pair, an unknown currency never converts
NeedsRate == (cur # "LBC" /\ OkRates(cur, cfg) = <<>>) => (~Me.ok /\ Me.err = "conversion")
UnknownRefused == cur = "EUR" => ~Me.ok
\* the result is within half a dewey of the exact product (checked where the product fits 32 bits: unscaled amounts)
HalfUnit == (cur \in {"BTC", "USD"} /\ OkRates(cur, cfg) # <<>> /\ amt.s = 0) =>
              LET r == Median(OkRates(cur, cfg))  x == Times(amt, r) IN
                (r.sh = 0) => LET exact16 == amt.c * r.m  got16 == x.c * 16 IN
                                (IF exact16 > got16 THEN exact16 - got16 ELSE got16 - exact16) <= 8
\* the decision: bought only within the limit (when one applies) and only for the converted amount
D == Decision(cur, amt, cfg, lim, ovr)
WithinLimit == (kind = "buy" /\ D.d = "buy" /\ ~ovr /\ lim.cur # "none") =>
                 (ToDewies(lim.cur, lim.amt, cfg).ok /\ ~Gt(Me.v, ToDewies(lim.cur, lim.amt, cfg).v))
BuysTheFee == (kind = "buy" /\ D.d = "buy") => (Me.ok /\ D.v = Me.v)

\* witnesses (INVARIANT must be violated)
W_Above == ~(kind = "buy" /\ D.d = "above")
W_BuyUnderUsdLimit == ~(kind = "buy" /\ D.d = "buy" /\ lim.cur # "none" /\ lim.cur = "USD" /\ cur = "BTC")
W_LimitUnconvertible == ~(kind = "buy" /\ Me.ok /\ D.d = "conversion")
W_Override == ~(kind = "buy" /\ ovr /\ lim.cur # "none" /\ D.d = "buy" /\ Gt(Me.v, ToDewies(lim.cur, lim.amt, cfg).v))
W_Tiny == ~(kind = "conv" /\ cur = "USD" /\ ~Me.ok /\ Me.err = "format" /\ amt.c > 0)
W_Tie == ~(kind = "conv" /\ cur = "USD" /\ amt = A(3333, 0) /\ cfg = 6 /\ Me.ok /\ Me.v = <<1, 6, 6, 6>>)   \* 1666.5 -> even

\* ------------------------------------------------------------------ emission
FeedsOut(fs) == [i \in DOMAIN fs |-> [st |-> fs[i].st, m |-> fs[i].r.m, sh |-> fs[i].r.sh]]
Case == [kind |-> kind, cur |-> cur, c |-> amt.c, s |-> amt.s, cfg |-> cfg,
         btc |-> FeedsOut(FEEDCFG[cfg].btc), usd |-> FeedsOut(FEEDCFG[cfg].usd),
         lim |-> [cur |-> lim.cur, c |-> lim.amt.c, s |-> lim.amt.s],
         ovr |-> ovr, ownaddr |-> ownaddr,
         ok |-> Me.ok, v |-> IF Me.ok THEN Me.v ELSE <<>>, err |-> IF Me.ok THEN "" ELSE Me.err,
         d |-> IF kind = "buy" THEN D.d ELSE "-"]
Emit == EMIT => PrintT(<<"CASE", ToJson(Case)>>)
=============================================================================
