------------------------------ MODULE DiskClean ------------------------------
(* C19 -- DiskSpaceManager.clean(): the content pass followed by the network pass, transcribed from
   lbry/blob/disk_space_manager.py and the SQL of storage.get_stored_blob_disk_usage / get_stored_blobs.

   Sizes are in quarter-MiB units (Q units per MiB); the code accounts in whole MiB: int(bytes / 2^20).
   A blob is [cls, size, here]; its index in `blobs` is its added_on time (distinct, ascending).
     own      is_mine=1, in a stream that has a file row          (counted as private_storage)
     content  is_mine=0, in a stream that has a file row          (content_storage; removable by the content pass)
     nofile   is_mine=0, in a stream WITHOUT a file row           (content_storage; not returned by the scan)
     network  is_mine=0, in no stream                             (network_storage; removable by the network pass)
   Every stream also has a small descriptor (sd) blob that is not counted in any usage figure; the content
   scan returns the sd blobs of foreign streams with a file AFTER all content blobs, each worth 0 whole MiB.
   `sdhere[i]` = the sd blob of the stream of blob i is still stored. *)
EXTENDS Naturals, Sequences, FiniteSets, TLC

CONSTANTS SIZES,      \* blob sizes offered, in quarter-MiB units
          MAXB,       \* at most this many blobs initially
          LIMITS,     \* values for both limits, in MB (0 = unlimited for content; 0 = nothing allowed for network)
          MAXPASS,    \* cleanup passes per behaviour
          ADDS,       \* blobs that may be added between passes
          Q,          \* size units per MiB (4 in the model: quarter MiB; 1048576 when validating real traces in bytes)
          PARTIAL,    \* TRUE: the initial population may contain blobs of partly downloaded streams (a row with the
                      \* announced length and status pending, nothing on disk: here = FALSE from the start)
          PHANTOM     \* FALSE (the code): only stored (finished) blobs are candidates of the content pass;
                      \* TRUE: pending rows are candidates too and are credited with their announced length (negative control)
CLS == {"own", "content", "nofile", "network"}

VARIABLES blobs, sdhere, climit, nlimit, passes, adds, phase,
          \* observation of the most recent pass (what the invariants talk about)
          cbefore, nbefore,          \* usage in whole MB of each class before its pass
          cdel, csd, ndel,           \* indices deleted by the content pass (data blobs / sd blobs) and the network pass
          pre                        \* `here` flags before the pass
vars == <<blobs, sdhere, climit, nlimit, passes, adds, phase, cbefore, nbefore, cdel, csd, ndel, pre>>

Idx == DOMAIN blobs
RECURSIVE SumSize(_)
SumSize(S) == IF S = {} THEN 0 ELSE LET x == CHOOSE x \in S : TRUE IN blobs[x].size + SumSize(S \ {x})
RECURSIVE SumFloor(_)
SumFloor(S) == IF S = {} THEN 0 ELSE LET x == CHOOSE x \in S : TRUE IN (blobs[x].size \div Q) + SumFloor(S \ {x})
Bytes(S, here) == SumSize({i \in S : here[i]})
Cls(c) == {i \in Idx : blobs[i].cls = c}
\* usage figures exactly as the code derives them: each class floored separately
ContentMB(here) == (Bytes(Cls("content") \cup Cls("nofile"), here) \div Q) + (Bytes(Cls("own"), here) \div Q)
NetworkMB(here) == Bytes(Cls("network"), here) \div Q
FloorMB(S) == SumFloor(S)
Here == [i \in Idx |-> blobs[i].here]

\* ---- the scan of _clean: take blobs in query order until the whole-MB deficit is covered
RECURSIVE Take(_, _, _)
Take(order, deficit, acc) ==      \* order: Seq of indices; deficit > 0 is -available
  IF order = <<>> THEN [taken |-> acc, left |-> deficit]
  ELSE LET i == Head(order)
           got == blobs[i].size \div Q
           nd == IF deficit > got THEN deficit - got ELSE 0
       IN IF nd = 0 THEN [taken |-> acc \cup {i}, left |-> 0] ELSE Take(Tail(order), nd, acc \cup {i})
\* order by added_on asc (= index asc)
RECURSIVE AscSeq(_)
AscSeq(S) == IF S = {} THEN <<>> ELSE LET m == CHOOSE x \in S : \A y \in S : x <= y IN <<m>> \o AscSeq(S \ {m})
\* order by length desc, added_on asc
RECURSIVE BigFirst(_)
BigFirst(S) == IF S = {} THEN <<>>
               ELSE LET m == CHOOSE x \in S : \A y \in S : blobs[x].size > blobs[y].size \/ (blobs[x].size = blobs[y].size /\ x <= y)
                    IN <<m>> \o BigFirst(S \ {m})

ContentPass(here, sdh) ==
  LET used == ContentMB(here)
      over == used > climit
  IN IF climit = 0 \/ ~over THEN [del |-> {}, sd |-> {}]
     ELSE LET r == Take(AscSeq({i \in Cls("content") : here[i] \/ PHANTOM}), used - climit, {})
          IN IF r.left = 0 THEN [del |-> r.taken, sd |-> {}]
             \* content blobs did not cover the excess: the scan continues over the sd blobs (0 MB each), so all go
             ELSE [del |-> r.taken, sd |-> {i \in Cls("content") : sdh[i]}]
NetworkPass(here) ==
  LET used == NetworkMB(here)
  IN IF used <= nlimit THEN {}
     ELSE Take(BigFirst({i \in Cls("network") : here[i]}), used - nlimit, {}).taken

Blob == [cls : CLS, size : SIZES, here : {TRUE}]
InitBlob == Blob \cup (IF PARTIAL THEN [cls : {"content"}, size : SIZES, here : {FALSE}] ELSE {})
Init == /\ \E n \in 0..MAXB : blobs \in [1..n -> InitBlob]
        /\ sdhere = [i \in DOMAIN blobs |-> TRUE]
        /\ climit \in LIMITS /\ nlimit \in LIMITS
        /\ passes = 0 /\ adds = 0 /\ phase = "init"
        /\ cbefore = 0 /\ nbefore = 0 /\ cdel = {} /\ csd = {} /\ ndel = {} /\ pre = Here

\* one call of DiskSpaceManager.clean() whose content pass deleted data blobs cd and sd blobs cs, and whose
\* network pass deleted nd (parameters: the model supplies the algorithm's choice, a trace the observed one)
CleanWith(cd, cs, nd) ==
  /\ passes < MAXPASS
  /\ LET h1 == [i \in Idx |-> Here[i] /\ i \notin cd]
     IN /\ cbefore' = ContentMB(Here) /\ nbefore' = NetworkMB(h1)
        /\ cdel' = cd /\ csd' = cs /\ ndel' = nd /\ pre' = Here
        /\ blobs' = [i \in Idx |-> [blobs[i] EXCEPT !.here = h1[i] /\ i \notin nd]]
        /\ sdhere' = [i \in Idx |-> sdhere[i] /\ i \notin cs]
  /\ passes' = passes + 1 /\ phase' = "cleaned"
  /\ UNCHANGED <<climit, nlimit, adds>>
AlgoContent == ContentPass(Here, sdhere)
AlgoNetwork(cd) == NetworkPass([i \in Idx |-> Here[i] /\ i \notin cd])
Clean == CleanWith(AlgoContent.del, AlgoContent.sd, AlgoNetwork(AlgoContent.del))

\* a blob is downloaded / published / seeded between passes (newest added_on)
AddBlob(b) ==
  /\ passes >= 1 /\ passes < MAXPASS /\ adds < ADDS
  /\ blobs' = Append(blobs, b) /\ sdhere' = Append(sdhere, TRUE) /\ pre' = Append(pre, FALSE)
  /\ adds' = adds + 1 /\ phase' = "added"
  /\ UNCHANGED <<climit, nlimit, passes, cbefore, nbefore, cdel, csd, ndel>>

Next == Clean \/ \E b \in Blob : AddBlob(b)
Spec == Init /\ [][Next]_vars

\* ------------------------------------------------------------------ the property, clause by clause.
\* Every clause is stated over the observation of the last pass only (pre, cdel, csd, ndel, limits), so the
\* same formulas judge the model's Clean and a pass recorded from the real DiskSpaceManager (DiskCleanTrace).
Cleaned == phase = "cleaned"
Removed == cdel \cup ndel
\* removes blobs only from a class whose usage exceeds its limit
OnlyWhenOverContent == (Cleaned /\ (cdel # {} \/ csd # {})) => (cbefore > climit /\ climit # 0)
OnlyWhenOverNetwork == (Cleaned /\ ndel # {}) => nbefore > nlimit
\* each pass touches its own class only; never blobs the user published; never unreferenced streams' blobs
ClassDiscipline == Cleaned => (cdel \subseteq Cls("content") /\ csd \subseteq Cls("content") /\ ndel \subseteq Cls("network"))
NeverOwn == Cleaned => (cdel \cup csd \cup ndel) \cap Cls("own") = {}
NothingWhenUnlimited == (Cleaned /\ climit = 0) => (cdel = {} /\ csd = {})
\* after the pass usage is within the limit whenever enough removable blobs existed (whole-MB accounting)
RemovableC == {i \in Cls("content") : pre[i]}
RemovableN == {i \in Cls("network") : pre[i] }
WithinAfterContent == (Cleaned /\ climit # 0 /\ cbefore > climit /\ FloorMB(RemovableC) >= cbefore - climit)
                         => ContentMB([i \in Idx |-> pre[i] /\ i \notin cdel]) <= climit
WithinAfterNetwork == (Cleaned /\ nbefore > nlimit /\ FloorMB(RemovableN) >= nbefore - nlimit)
                         => NetworkMB([i \in Idx |-> pre[i] /\ i \notin Removed]) <= nlimit
\* the space freed does not exceed the excess by more than the whole-MB accounting allows:
\* the deleted set is minimal for SOME last element (order-independent form of "stop as soon as covered")
Minimal(D, excess) == D = {} \/ \E b \in D : FloorMB(D \ {b}) < excess
MinimalContent == Cleaned => Minimal(cdel, cbefore - climit) /\ (csd # {} => FloorMB(cdel) < cbefore - climit)
MinimalNetwork == Cleaned => Minimal(ndel, nbefore - nlimit)
\* only stored blobs are deleted
DeletedWereHere == Cleaned => \A i \in Removed : pre[i]

\* reachability witnesses (each must be VIOLATED in the exhaustive configuration; vacuity guard)
W_ContentDeleted == ~(Cleaned /\ cdel # {})
W_NetworkDeleted == ~(Cleaned /\ ndel # {})
W_SdDeleted == ~(Cleaned /\ csd # {})
W_OverButUnlimited == ~(Cleaned /\ climit = 0 /\ cbefore > 3)
W_SecondPassDeletes == ~(passes = 2 /\ Removed # {})
=============================================================================
