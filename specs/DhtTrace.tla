------------------------------ MODULE DhtTrace ------------------------------
(* Judgement of real DHT runs (C12).  Every record is one observation of REAL lbry.dht.node.Node objects running in one
   process under the deterministic loop on a driver-controlled datagram network; what is recorded is what the WIRE and
   the public API show (requests sent, responses delivered, peers yielded by the finders, virtual time).  Times are in
   ticks of 1/1024 s.  One step per record (see BlobExchangeTrace / TxFundTrace).

   kind "announce": Node.announce_blob on a warmed-up honest loss-free network of n nodes
        stored_to   number of node ids announce_blob returned          stored_seen  nodes on which the wire saw the store arrive
        want        min(K, n-1)                                        rank_max     worst closeness rank (1 = closest other node) of a storing node
        converged   every node's routing table holds its K nearest other nodes
   kind "hit":  one value lookup (real IterativeValueFinder, consumed until it ends) from a node other than the announcer
        found       the announcer (node id, address, tcp port) was among the yielded peers
        age_hi      upper bound of (end of lookup - EARLIEST store time, on any storing node, of the announcer's LATEST
                    announcement of the blob), rounded up
        age_lo      lower bound of (start of lookup - LATEST store time on any storing node), rounded down
        day         24 h in ticks
   kind "paging": n announcers stored on ONE real node through real store datagrams, fetched by the real finder (or
        by the real server RPC + the client's continuation rule): returned = announcers that came back, extra = others
   kind "lookup": one real lookup (mode "node" | "value") against scripted dead / hostile / honest peers, with loss
   kind "token":  a store request carrying a token the node never issued, after the node rotated its secret twice
   Lookups ("hit" and "lookup") carry: finished, t0, t1, timeout, nprobes, max_same_probe (largest number of requests for the
   same (peer, page)), yielded = <<[o |-> 4 octets, port, idlen, self, replied]>>. *)
EXTENDS Naturals, Integers, Sequences, FiniteSets, TLC, Json, IOUtils, TLCExt
VARIABLES tid, l
tvars == <<tid, l>>
TraceLog == JsonDeserialize(IOEnv.TRACE_FILE)
R == TraceLog[tid]
TInit == tid \in 1..Len(TraceLog) /\ l = 0
TNext == l = 0 /\ l' = 1 /\ tid' = tid
TSpec == TInit /\ [][TNext]_tvars
Is(k) == l = 1 /\ R.kind = k
IsLookup == l = 1 /\ R.kind \in {"hit", "lookup"}

\* a network of honest nodes must not spin: the driver's scheduler-step budget (25 steps per node and virtual second; an
\* idle node needs about 5) was exhausted
TNoLivelock == ~Is("livelock")

\* ---- findable until expiry (honest, loss-free network)
\* every copy younger than 24 h during the whole lookup => the announcer is returned
THit == Is("hit") => ((R.age_hi < R.day) => (R.finished /\ R.found))
\* every copy at least 24 h old when the lookup starts => the announcer is not returned
TNoHitAfter == Is("hit") => ((R.age_lo >= R.day) => ~R.found)
\* the announcement reached as many nodes as exist, up to K; they are exactly the closest ones to the hash once every
\* node knows its K nearest neighbours (the saturated tables of DhtStore.tla; a 40-node network needs more than the 4000 s
\* warm-up for that, smaller ones are full meshes by then)
TStoredSomewhere == Is("announce") => /\ R.stored_to = R.want /\ R.stored_seen = R.want
                                      /\ R.converged => R.rank_max <= R.want
\* paging returns every announcer and nothing else
TPagingComplete == Is("paging") => (R.finished /\ R.acked = R.n /\ R.returned = R.n /\ R.extra = 0)

\* ---- termination and output validity (any network)
\* the lookup ends; at least one probe is in flight until it does and a probe lasts at most rpc_timeout, so the
\* elapsed virtual time is bounded by (number of probes) * rpc_timeout -- for a node lookup (one page per peer) that is
\* (number of contacted peers) * rpc_timeout; a (peer, page) is asked at most once
TTerminates == IsLookup => /\ R.finished /\ ~R.stopped_by_probe_budget /\ R.t1 - R.t0 <= R.nprobes * R.timeout
                           /\ (R.kind = "lookup" /\ R.mode = "node") => R.t1 - R.t0 <= R.contacted * R.timeout
TProbeOnce == IsLookup => R.max_same_probe <= 1 /\ (R.mode = "node" => R.max_per_peer <= 1)
Y == R.yielded
TNodeResultsReplied == IsLookup => (R.mode = "node" => \A i \in DOMAIN Y : Y[i].replied)
TNeverSelf == IsLookup => (R.mode = "node" => \A i \in DOMAIN Y : ~Y[i].self)
\* public IPv4: none of 0/8 10/8 100.64/10 127/8 169.254/16 172.16/12 192.168/16 192.88.99/24 224/3
Public(o) == /\ Len(o) = 4 /\ \A i \in 1..4 : o[i] \in 0..255
             /\ o[1] \notin {0, 10, 127} /\ o[1] < 224
             /\ ~(o[1] = 100 /\ o[2] \in 64..127) /\ ~(o[1] = 169 /\ o[2] = 254)
             /\ ~(o[1] = 172 /\ o[2] \in 16..31) /\ ~(o[1] = 192 /\ o[2] = 168) /\ ~(o[1] = 192 /\ o[2] = 88 /\ o[3] = 99)
WellFormed(y) == Public(y.o) /\ y.port \in 1024..65535 /\ y.idlen = 48
TValueWellFormed == IsLookup => \A i \in DOMAIN Y : WellFormed(Y[i])

\* ---- a store needs a token issued by the storing node
TTokenRequired == Is("token") => (R.refused /\ ~R.listed)

Reached == TRUE
Report == TLCGet("stats").diameter >= 0 /\ \A t \in 1..Len(TraceLog) : PrintT(<<"TRACE", t, "accepted", 0, 0>>)
=============================================================================
