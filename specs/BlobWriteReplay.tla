--------------------------- MODULE BlobWriteReplay ---------------------------
(* Exact conformance of BlobWrite.tla's ALGORITHM with the real BlobFile / HashBlobWriter (spec drift detection, C01
   Leg B).  The driver's schedule (open / write n units / run ONE loop callback / let the executor job finish /
   set_length) is re-executed action by action on the model: Step = RunHead, Job = ExecDone, and after every action the
   model's projection (verified, file, completed-callback count, per writer handle open / future pending) must equal what
   was observed on the real objects.  The first difference marks the trace as DRIFT (the model no longer describes the
   code) -- not a violation of the property, which is judged by BlobWriteTrace.tla on the observations alone. *)
EXTENDS BlobWrite, Json, IOUtils, TLCExt
VARIABLES tid, l, drifted
TraceLog == JsonDeserialize(IOEnv.TRACE_FILE)
T == TraceLog[tid]
rvars == <<vars, tid, l, drifted>>
RInit == /\ tid \in 1..Len(TraceLog) /\ l = 1 /\ drifted = FALSE
         /\ TraceLog[tid].L = L
         /\ decl = TraceLog[tid].decl
         /\ open = [w \in Writers |-> FALSE] /\ fut = [w \in Writers |-> "none"]
         /\ inmap = [w \in Writers |-> FALSE] /\ sofar = [w \in Writers |-> 0]
         /\ allgood = [w \in Writers |-> TRUE] /\ delivered = [w \in Writers |-> FALSE]
         /\ ready = <<>> /\ exec = "none" /\ writing = FALSE /\ verified = FALSE
         /\ file = "none" /\ completedCalls = 0 /\ ndel = 0
E == T.ev[l]
Kind == IF E.good THEN "good" ELSE "bad"
Do == CASE E.event = "Open" -> IF E.ok THEN (GetWriterGuarded(E.w) \/ GetWriterBare(E.w)) ELSE UNCHANGED vars
       [] E.event = "Write" -> (Write(E.w, E.n, Kind) \/ (~ENABLED Write(E.w, E.n, Kind) /\ UNCHANGED vars))
       [] E.event = "Step" -> RunHead
       [] E.event = "Job" -> ExecDone
       [] E.event = "SetLength" -> (SetLength(E.len) \/ (~ENABLED SetLength(E.len) /\ UNCHANGED vars))
       [] OTHER -> UNCHANGED vars
MatchNext == /\ verified' = E.obs.verified /\ file' = E.obs.file /\ completedCalls' = E.obs.completed
             /\ \A w \in Writers : fut'[w] # "none" => (open'[w] = ~E.obs.closed[w] /\ (fut'[w] = "pending") = E.obs.pending[w])
RNext == /\ l <= Len(T.ev) /\ l' = l + 1 /\ tid' = tid
         /\ IF drifted THEN UNCHANGED <<vars, drifted>>
            ELSE \/ (Do /\ drifted' = ~MatchNext)
                 \/ (~ENABLED Do /\ UNCHANGED vars /\ drifted' = TRUE)         \* the model has no such step
RSpec == RInit /\ [][RNext]_rvars
Reached == TLCSet(tid, IF TLCGetOrDefault(tid, 1) > l THEN TLCGetOrDefault(tid, 1) ELSE l)
Note == IF drifted THEN TLCSet(100000 + tid, 1) ELSE TRUE
Report == TLCGet("stats").diameter >= 0 /\ \A t \in 1..Len(TraceLog) :
            /\ PrintT(<<"TRACE", t, IF TraceLog[t].L # L \/ TLCGetOrDefault(t, 1) - 1 = Len(TraceLog[t].ev) THEN "accepted" ELSE "rejected", TLCGetOrDefault(t, 1) - 1, Len(TraceLog[t].ev)>>)
            /\ (TLCGetOrDefault(100000 + t, 0) > 0 => PrintT(<<"DRIFT", t>>))
=============================================================================
