------------------------------- MODULE LangTag -------------------------------
(* C16 -- language tags and country codes of the metadata API (lbry/schema/attrs.py: Language.langtag / language /
   script / region, LanguageList.append, Location.country; country_int_to_str / country_str_to_int).

   The three enumerations are DATA of the claim schema (ISO 639 languages, ISO 15924 scripts, ISO 3166 countries plus
   the UN M.49 regions, which the protobuf spells "R" + three digits); the driver reads them from the protobuf
   descriptor and passes them in as constants, so the case space is EVERY member of every enumeration.

   A tag is  language [ "-" script ] [ "-" region ] .  The setter splits at "-" and decides by SHAPE: a part of four
   characters is the script, a part of two letters or of three digits is the region.  A three-digit region is written
   without the "R" in a tag and stored with it.  What is read back -- the tag, its three parts, and what a plain
   protobuf parse of the bytes shows -- equals what was set.

   Cases (initial states):
     "tag"      language alone, for every language;  (L0, script) for every script;  (L0, region) and (L0, S0, region)
                for every country and every three-digit region, L0 ranging over PIVOTS
     "country"  Location.country for every country
   Each case carries the expected read-back computed here; the driver performs it on a real Claim. *)
EXTENDS Naturals, Sequences, FiniteSets, TLC, Json
CONSTANTS LANGS, SCRIPTS, COUNTRIES, REGIONS3,    \* sets of strings; REGIONS3: the three digits, without the "R"
          PIVOTS, S0,                             \* languages / the script used where another part varies
          EMIT
VARIABLES kind, lang, script, region
vars == <<kind, lang, script, region>>

Regions == COUNTRIES \cup REGIONS3
Init == \/ /\ kind = "tag" /\ lang \in LANGS /\ script = "" /\ region = ""
        \/ /\ kind = "tag" /\ lang \in PIVOTS /\ script \in SCRIPTS /\ region = ""
        \/ /\ kind = "tag" /\ lang \in PIVOTS /\ script \in {"", S0} /\ region \in Regions
        \/ /\ kind = "country" /\ lang = "" /\ script = "" /\ region \in COUNTRIES
Next == UNCHANGED vars
Spec == Init /\ [][Next]_vars

Parts == <<lang>> \o (IF script # "" THEN <<script>> ELSE <<>>) \o (IF region # "" THEN <<region>> ELSE <<>>)
\* the shape classes the setter dispatches on, as membership in the enumerations
Shape(p) == IF p \in SCRIPTS THEN "four" ELSE IF p \in COUNTRIES THEN "alpha2" ELSE IF p \in REGIONS3 THEN "digit3" ELSE "other"
\* the setter's parse of the printed parts
Parse(ps) == LET rest1 == Tail(ps)
                 hasS == rest1 # <<>> /\ Shape(Head(rest1)) = "four"
                 rest2 == IF hasS THEN Tail(rest1) ELSE rest1
                 hasR == rest2 # <<>> /\ Shape(Head(rest2)) \in {"alpha2", "digit3"}
                 rest3 == IF hasR THEN Tail(rest2) ELSE rest2
             IN [language |-> Head(ps), script |-> IF hasS THEN Head(rest1) ELSE "", region |-> IF hasR THEN Head(rest2) ELSE "",
                 leftover |-> Len(rest3)]

\* ---- laws
\* the enumerations do not overlap in shape, so the dispatch by shape is a function (constant level: checked once)
ASSUME ShapesDisjoint == SCRIPTS \cap Regions = {} /\ COUNTRIES \cap REGIONS3 = {}
\* parsing what is printed gives back the parts
RoundTrip == kind = "tag" => LET p == Parse(Parts) IN p.language = lang /\ p.script = script /\ p.region = region /\ p.leftover = 0
\* stored spelling of a region: "R" is prefixed to the three-digit codes and to nothing else
Stored(r) == IF r \in REGIONS3 THEN "R" \o r ELSE r
ASSUME StoredInjective == \A a \in COUNTRIES, b \in REGIONS3 : a # "R" \o b

RECURSIVE Join(_)
Join(ps) == IF Len(ps) = 1 THEN Head(ps) ELSE Head(ps) \o "-" \o Join(Tail(ps))
Case == IF kind = "tag"
        THEN [kind |-> kind, tag |-> Join(Parts), language |-> lang, script |-> script, region |-> region,
              raw |-> <<lang, IF script = "" THEN "UNKNOWN_SCRIPT" ELSE script, IF region = "" THEN "UNKNOWN_COUNTRY" ELSE Stored(region)>>]
        ELSE [kind |-> kind, country |-> region, raw |-> <<region>>]
Emit == EMIT => PrintT(<<"LANG", ToJson(Case)>>)
=============================================================================
